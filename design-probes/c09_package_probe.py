import sys, random, io, zipfile, re, json
import xml.parsers.expat as expat
sys.path.insert(0,'/tmp/x')
exec(open('/tmp/x/c08.py').read().split("bad=0;n=0;kinds={}")[0])
FM={'epub':1,'odt':6,'bundlezip':8,'itmz':10}
probs={}
n=0
for it in range(int(sys.argv[1])):
    src=gen()
    for name,f in FM.items():
        out=pt.hexout('data',f,SM|NOTES|CRIT,src.encode()); n+=1
        def P(k,ctx=''): probs.setdefault(name+': '+k,[]).append((ctx,src))
        try: z=zipfile.ZipFile(io.BytesIO(out))
        except Exception as e: P('not a zip %s'%e); continue
        if z.testzip() is not None: P('crc')
        names=z.namelist()
        if len(set(names))!=len(names): P('dup names')
        if name=='epub':
            if names[0]!='mimetype' or z.read('mimetype')!=b'application/epub+zip': P('mimetype')
            for req in ('META-INF/container.xml','OEBPS/main.opf','OEBPS/nav.xhtml','OEBPS/main.xhtml'):
                if req not in names: P('missing '+req)
        if name=='odt':
            if names[0]!='mimetype' or z.getinfo('mimetype').compress_type!=0: P('mimetype')
            for req in ('content.xml','styles.xml','meta.xml','settings.xml','META-INF/manifest.xml'):
                if req not in names: P('missing '+req)
        if name=='bundlezip':
            try: json.loads(z.read('info.json'))
            except Exception as e: P('info.json')
        for m in names:
            if m.endswith(('.xml','.xhtml','.opf')):
                data=z.read(m)
                p=expat.ParserCreate()
                try: p.Parse(data,True)
                except expat.ExpatError as e:
                    line=data.split(b'\n')[e.lineno-1]; ctx=line[max(0,e.offset-50):e.offset+25]
                    cls='?'
                    for key,pat in (('img attr',b'<img'),('nbsp',b'&nbsp'),('draw:image',b'draw:image'),('critic <<',b'<<'),('entity',b'&')):
                        if pat in ctx: cls=key; break
                    P('XML %s %s [%s]'%(m,str(e).split(':')[0],cls),ctx)
print('n',n)
for k,v in sorted(probs.items(),key=lambda x:-len(x[1])):
    print(len(v),k,'   e.g.',v[0][0][:90])
