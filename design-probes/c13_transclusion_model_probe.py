import sys, random, os, shutil, subprocess, re
rnd=random.Random(int(sys.argv[2]) if len(sys.argv)>2 else 1)
M='/repo/_build/multimarkdown'
ROOT='/tmp/x/trg'
EXT={'html':'.html','latex':'.tex','fodt':'.fodt','mmd':None,'opml':'.txt'}
def gen():
    n=rnd.randint(2,6)
    names=[]
    for i in range(n):
        d=rnd.choice(['','','sub/','sub/deep/'])
        names.append(d+f'f{i}.txt')
    files={}
    # acyclic: file i may include only j>i
    for i,nm in enumerate(names):
        meta=''
        base=None
        if rnd.random()<0.4:
            meta='Title: t%d\n'%i
            if rnd.random()<0.5:
                base=rnd.choice(['.','sub/','..'])
                meta+='transclude base: %s\n'%base
            meta+='\n'
        body=''
        for k in range(rnd.randint(0,3)):
            body+=rnd.choice(['text %d '%i,'line\n','\n\n','& <x> '])
            r=rnd.random()
            if r<0.6 and i+1<n:
                j=rnd.randint(i+1,n-1); body+='{{REF:%d}}'%j
            elif r<0.7: body+='{{missing%d.txt}}'%k
            elif r<0.75: body+='{{TOC}}'
            elif r<0.8: body+='{{wild.*}}'
        body+=rnd.choice(['end %d\n'%i,'end %d'%i])
        files[nm]=(meta,body,base)
    return names,files
def realize(names,files):
    shutil.rmtree(ROOT,ignore_errors=True); os.makedirs(ROOT+'/sub/deep')
    for e in ('.html','.tex','.fodt','.txt'):
        for d in ('','sub/','sub/deep/'):
            open(ROOT+'/'+d+'wild'+e,'w').write('WILD'+e+d+'\n')
    # resolve REF markers into relative paths valid from the *search folder* in effect -> need model of search folder; do two passes:
    return
def norm(p): return os.path.normpath(p)
def model(names,files,fmt):
    # compute search folders top-down, choose marker text relative to the effective search folder, write files, and compute expected
    texts={}
    def effective_folder(nm,inherited):
        meta,body,base=files[nm]
        if base is None: return inherited
        return norm(os.path.join(ROOT,os.path.dirname(nm),base))
    # a file may be reached with different inherited folders; to keep marker text fixed we write markers as ABSOLUTE or relative to its own effective folder only when base is set; else relative to top folder ROOT (inherited may differ!) -> use absolute paths for files without base reached via non-root inherited... simpler: choose absolute marker with prob, else relative computed for inherited=ROOT and verify
    return
# Simplified strategy: all markers relative to the folder in effect assuming the includer chain; we generate trees (each file included from exactly one place) to make that well-defined
def gen_tree():
    n=rnd.randint(2,6)
    names=[rnd.choice(['','sub/','sub/deep/'])+f'f{i}.txt' for i in range(n)]
    parent={}; 
    for j in range(1,n): parent[j]=rnd.randint(0,j-1)
    children={i:[j for j in range(1,n) if parent[j]==i] for i in range(n)}
    info={}
    for i in range(n):
        base=None; meta=''
        if rnd.random()<0.5:
            meta='Title: t%d\n'%i
            if rnd.random()<0.6:
                base=rnd.choice(['.','sub/','..','sub'])
                if not os.path.isdir(os.path.join('/tmp/x/trgskel',os.path.dirname(names[i]),base)): base='.'
                meta+='transclude base: %s\n'%base
            meta+='\n'
        info[i]=(meta,base)
    return n,names,children,info
def build(n,names,children,info,fmt):
    shutil.rmtree(ROOT,ignore_errors=True); os.makedirs(ROOT+'/sub/deep')
    for e in ('.html','.tex','.fodt','.txt'):
        for d in ('','sub/','sub/deep/'):
            open(ROOT+'/'+d+'wild'+e,'w').write('WILD'+e+' '+d+'\n')
    expected={}
    def rec(i,inherited):
        meta,base=info[i]
        folder=inherited if base is None else norm(os.path.join(ROOT,os.path.dirname(names[i]),base))
        body='';exp=''
        parts=[]
        for j in children[i]:
            parts.append(('ref',j))
        for k in range(rnd.randint(0,2)):
            parts.append(rnd.choice([('miss',k),('toc',),('wild',),('txt','& <x> %d\n'%k),('txt','\n\npara %d '%k)]))
        rnd.shuffle(parts)
        for p in parts:
            body+='seg%d '%i; exp+='seg%d '%i
            if p[0]=='ref':
                j=p[1]; target=os.path.join(ROOT,names[j])
                if rnd.random()<0.25: mk=target
                else: mk=os.path.relpath(target,folder)
                body+='{{'+mk+'}}'
                cexp=rec(j,folder)
                exp+=cexp
            elif p[0]=='miss': body+='{{missing%d.txt}}'%p[1]; exp+='{{missing%d.txt}}'%p[1]
            elif p[0]=='toc': body+='{{TOC}}'; exp+='{{TOC}}'
            elif p[0]=='wild':
                body+='{{wild.*}}'
                e=EXT[fmt]
                wf=os.path.join(folder,'wild'+(e or '.*'))
                if e and os.path.exists(wf): exp+=open(wf).read()
                else: exp+='{{wild.*}}'
            else: body+=p[1]; exp+=p[1]
        tail=rnd.choice(['end%d\n'%i,'end%d'%i]); body+=tail; exp+=tail
        open(os.path.join(ROOT,names[i]),'w').write(meta+body)
        expected[i]=(meta,exp)
        return exp   # content minus metadata: body only (blank line after meta? meta ends with '\n\n' -> block is lines up to first blank; remaining starts with '\n')
    def strip(meta): 
        return '\n' if meta else ''
    # adjust: included content = (blank line remaining after metadata) + body
    def rec2(i,inherited):
        return rec(i,inherited)
    top=rec(0,norm(os.path.join(ROOT,os.path.dirname(names[0]))))
    return expected
bad=0;n_=0
for it in range(int(sys.argv[1])):
    fmt='mmd'
    n,names,children,info=gen_tree()
    # expected needs the leading '\n' for included files with metadata; patch rec by wrapping
    st=rnd.getstate()
    expected=None
    # monkeypatch: build with closure that adds '\n' for meta'd children
    def build2():
        shutil.rmtree(ROOT,ignore_errors=True); os.makedirs(ROOT+'/sub/deep')
        for e in ('.html','.tex','.fodt','.txt'):
            for d in ('','sub/','sub/deep/'):
                open(ROOT+'/'+d+'wild'+e,'w').write('WILD'+e+' '+d+'\n')
        def rec(i,inherited,top=False):
            meta,base=info[i]
            folder=inherited if base is None else norm(os.path.join(ROOT,os.path.dirname(names[i]),base))
            body='';exp=''
            parts=[('ref',j) for j in children[i]]
            for k in range(rnd.randint(0,2)):
                parts.append(rnd.choice([('miss',k),('toc',),('wild',),('txt','& <x> %d\n'%k),('txt','\n\npara %d '%k)]))
            rnd.shuffle(parts)
            for p in parts:
                body+='seg%d '%i; exp+='seg%d '%i
                if p[0]=='ref':
                    j=p[1]; target=os.path.join(ROOT,names[j])
                    mk=target if rnd.random()<0.25 else os.path.relpath(target,folder)
                    body+='{{'+mk+'}}'; exp+=rec(j,folder)
                elif p[0]=='miss': body+='{{missing%d.txt}}'%p[1]; exp+='{{missing%d.txt}}'%p[1]
                elif p[0]=='toc': body+='{{TOC}}'; exp+='{{TOC}}'
                elif p[0]=='wild':
                    body+='{{wild.*}}'; e=EXT[fmt]; wf=os.path.join(folder,'wild'+(e or '.*'))
                    exp+= open(wf).read() if (e and os.path.exists(wf)) else '{{wild.*}}'
                else: body+=p[1]; exp+=p[1]
            tail=rnd.choice(['end%d\n'%i,'end%d'%i]); body+=tail; exp+=tail
            open(os.path.join(ROOT,names[i]),'w').write(meta+body)
            if top: return meta+exp
            return ('\n' if meta else '')+exp
        return rec(0,norm(os.path.join(ROOT,os.path.dirname(names[0]))),True)
    exp=build2()
    r=subprocess.run([M,'-t','mmd',os.path.join(ROOT,names[0])],capture_output=True,timeout=20)
    # -t mmd applies format MMD for wildcard => fmt forced to mmd here
    got=r.stdout.decode()
    n_+=1
    if got!=exp:
        bad+=1
        if bad<4:
            print('=== top',names[0]); 
            for i in range(n): print('---',names[i]); print(open(os.path.join(ROOT,names[i])).read())
            print('--- EXP'); print(repr(exp)); print('--- GOT'); print(repr(got))
print('n',n_,'bad',bad)
