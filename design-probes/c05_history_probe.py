import sys, random, glob
from ptlib import PT
rnd=random.Random(int(sys.argv[2]) if len(sys.argv)>2 else 1)
docs=[open(f,'rb').read() for f in sorted(glob.glob('/repo/tests/MMD6Tests/*.text'))]
names=[f.split('/')[-1] for f in sorted(glob.glob('/repo/tests/MMD6Tests/*.text'))]
docs=[(n,d) for n,d in zip(names,docs) if b'\0' not in d and n not in ('Automatic Links.text',)]
SM,NOTES,CRIT=(1<<3),(1<<4),(1<<9)
EXTS=[SM|NOTES|CRIT, 1|(1<<5)|(1<<7), 0, SM|NOTES|CRIT|(1<<12), SM|NOTES|CRIT|(1<<16), NOTES|CRIT|(1<<10)]
FMTS=[0,2,3,4,5,9]
ref={}
def fresh(key):
    if key not in ref:
        p=PT(); i,f,e=key; ref[key]=p.hexout('data',f,e,docs[i][1]); p.p.kill()
    return ref[key]
bad=0;n=0
for it in range(int(sys.argv[1])):
    p=PT(); hist=[]
    for step in range(rnd.randint(2,8)):
        key=(rnd.randrange(len(docs)),rnd.choice(FMTS),rnd.choice(EXTS))
        out=p.hexout('data',key[1],key[2],docs[key[0]][1]); hist.append(key); n+=1
        if key[2]&((1<<12)|(1<<16)): continue
        if out!=fresh(key):
            bad+=1; print('DIFF at step',step,'doc',docs[key[0]][0],'fmt',key[1],'ext',key[2],'history',[(docs[k[0]][0],k[1],k[2]) for k in hist[:-1]][-3:]); break
    p.p.kill()
print('n',n,'bad',bad)
