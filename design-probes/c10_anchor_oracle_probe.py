import sys, random, re
import xml.etree.ElementTree as ET
from ptlib import PT
pt=PT()
rnd=random.Random(int(sys.argv[2]) if len(sys.argv)>2 else 1)
SM,NOTES,CRIT=(1<<3),(1<<4),(1<<9); RF=(1<<12); RL=(1<<16)
WORDS=['alpha','bravo','charlie','delta','echo','foxtrot','golf','hotel']
def words(n=None): return ' '.join(rnd.choice(WORDS) for _ in range(n or rnd.randint(1,3)))
def gen():
    nh=rnd.randint(1,5); heads=[]; blocks=[]; titles=set()
    for i in range(nh):
        t=words(rnd.randint(1,3)).title()+rnd.choice(['',' 2',': x','-y','. z',' é',''])
        style=rnd.choice(['atx','atxc','set1','set2','manual'])
        heads.append((t,style,f'lab{i}' if style=='manual' else None))
    nf=rnd.randint(0,4); notes=[f'fn{i}' for i in range(nf)]
    ncit=rnd.randint(0,2); cits=[f'ct{i}' for i in range(ncit)]
    ngl=rnd.randint(0,2); gls=[f'term{i}' for i in range(ngl)]
    refs_created=[]
    def para():
        parts=[words()]
        for _ in range(rnd.randint(0,3)):
            r=rnd.random()
            if r<0.35 and notes: parts.append('note'+f'[^{rnd.choice(notes)}]')
            elif r<0.45: parts.append('inl'+f'[^inline {words()} note]')
            elif r<0.55 and cits: parts.append(f'cite[#{rnd.choice(cits)}]')
            elif r<0.62 and cits: parts.append(f'[p. 3][#{rnd.choice(cits)}]')
            elif r<0.7 and gls: parts.append(f'[?{rnd.choice(gls)}]')
            elif r<0.9:
                h=rnd.choice(heads)
                form=rnd.choice(['[%s][]','[%s]','[text here][%s]'])
                target=h[2] if h[2] else h[0]
                parts.append(form%target); refs_created.append((target,h))
            parts.append(words())
        return ' '.join(parts)
    for (t,style,lab) in heads:
        lvl=rnd.randint(1,4)
        if style=='atx': blocks.append('#'*lvl+' '+t)
        elif style=='atxc': blocks.append('#'*lvl+' '+t+' '+'#'*lvl)
        elif style=='manual': blocks.append('#'*lvl+' '+t+f' [{lab}]')
        elif style=='set1': blocks.append(t+'\n'+'='*len(t))
        else: blocks.append(t+'\n'+'-'*len(t))
        for _ in range(rnd.randint(0,2)):
            r=rnd.random()
            if r<0.7: blocks.append(para())
            elif r<0.85: blocks.append('* '+para()+'\n* '+para())
            else: blocks.append('> '+para())
    if rnd.random()<0.4: blocks.insert(rnd.randint(0,len(blocks)),'{{TOC}}')
    for n_ in notes: blocks.append(f'[^{n_}]: {words()} text.')
    for c in cits: blocks.append(f'[#{c}]: Author. *Title {c}*. 2020.')
    for g in gls: blocks.append(f'[?{g}]: definition of {g} {words()}')
    return '\n\n'.join(blocks)+'\n', heads, refs_created
def check(src,heads,refs,ext):
    out=pt.hexout('convert',0,ext,src.encode()).decode()
    probs=[]
    try: root=ET.fromstring('<root>'+out.replace('&nbsp;','&#160;')+'</root>')
    except Exception as e: return ['XML parse: %s'%e], out
    ids={}
    for el in root.iter():
        i=el.get('id')
        if i is not None: ids.setdefault(i,[]).append(el)
    for a in root.iter('a'):
        h=a.get('href','')
        if h.startswith('#'):
            if h[1:] not in ids: probs.append(f'dangling href {h} class={a.get("class")}')
    # footnote numbering
    calls=[a for a in root.iter('a') if a.get('class')=='footnote']
    nums=[int(a.find('sup').text) for a in calls]
    seen=[]; 
    for k in nums:
        if k not in seen: seen.append(k)
    if seen!=list(range(1,len(seen)+1)): probs.append(f'first-use numbering {nums}')
    # created refs resolved?
    text=ET.tostring(root,encoding='unicode')
    for target,h in refs:
        if f'[{target}]' in out: probs.append(f'unresolved cross-ref [{target}] style={h[1]}')
    return probs,out
bad=0;n=0;kinds={}
for it in range(int(sys.argv[1])):
    src,heads,refs=gen()
    for ext in (SM|NOTES|CRIT, SM|NOTES|CRIT|RF, SM|NOTES|CRIT|RL):
        probs,out=check(src,heads,refs,ext); n+=1
        for p in probs:
            k=re.sub(r'\d+','N',p)[:60]; k=re.sub(r'\[.*?\]','[..]',k)
            kinds[k]=kinds.get(k,0)+1
        if probs: bad+=1
        if probs and bad<=int(sys.argv[3] if len(sys.argv)>3 else 2): print('=====',ext,probs,'\n'+src)
print('n',n,'bad',bad)
for k,v in sorted(kinds.items(),key=lambda x:-x[1]): print(v,k)
