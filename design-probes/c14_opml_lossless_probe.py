import sys, random, re
import xml.etree.ElementTree as ET
from ptlib import PT
pt=PT()
rnd=random.Random(int(sys.argv[2]) if len(sys.argv)>2 else 1)
WORDS=['alpha','beta & gamma','<tag>','"q"',"it's",'a*b*','`c<d`','x\ty','é中','[l](u)','1 < 2 > 0','&amp;','&#10;','**s**','~sub~','^sup^','{++a++}','\\(m\\)','$x$','> q','* item','1. one','    code','\tcode','| a | b |','term','http://a.b/?x=1&y=2']
def body():
    n=rnd.randint(0,4); paras=[]
    for _ in range(n):
        lines=[' '.join(rnd.choice(WORDS) for _ in range(rnd.randint(1,4))) for _ in range(rnd.randint(1,3))]
        # no heading-like lines
        lines=[l for l in lines if not re.match(r'^ {0,3}#',l) and not re.match(r'^\s*(=+|-+)\s*$',l)]
        if lines: paras.append('\n'.join(lines))
    b='\n\n'.join(paras)
    lead=rnd.choice(['\n','\n\n','']); trail=rnd.choice(['\n','\n\n','\n\n\n'])
    return lead+b+trail if b else rnd.choice(['','\n','\n\n'])
def title(): 
    t=' '.join(rnd.choice(['Alpha','Beta','x & y','<T>','"Q"',"o'k",'é中','a-b','C3']) for _ in range(rnd.randint(1,3)))
    return t
bad=0; n=0
for it in range(int(sys.argv[1])):
    nh=rnd.randint(1,6)
    parts=[]; heads=[]
    pre=''
    if rnd.random()<0.5:
        pre='Preamble '+rnd.choice(WORDS)+' text.\n'+rnd.choice(['','\n','\nmore & more\n\n'])
    src=pre
    expect=[]
    if pre: expect.append(('>>Preamble<<',None))
    for h in range(nh):
        t=title(); lvl=rnd.randint(1,6); style=rnd.choice(['atx','atxc','setext']) 
        if style=='setext': lvl=rnd.choice([1,2]); line=t+'\n'+('=' if lvl==1 else '-')*max(3,len(t))+'\n'
        elif style=='atx': line='#'*lvl+' '+t+'\n'
        else: line='#'*lvl+' '+t+' '+'#'*lvl+'\n'
        b=body()
        if h==nh-1 and rnd.random()<0.3: 
            b=b.rstrip('\n')  # eof without newline
            if b=='' : line=line.rstrip('\n') if style!='setext' else line
        # setext needs preceding blank line if previous content is paragraph text
        if style=='setext' and src and not src.endswith('\n\n'): 
            if expect and expect[-1][1] is not None: expect[-1]=(expect[-1][0],expect[-1][1]+('\n' if src.endswith('\n') else '\n\n'))
            elif pre and len(expect)==1 and expect[0][1] is None: pass
            src+= '\n' if src.endswith('\n') else '\n\n'
        src+=line
        expect.append((t,b)); src+=b
        # body must end with newline before next heading: ensure
        if h<nh-1 and not src.endswith('\n'): src+='\n'; expect[-1]=(t,b+'\n')
    n+=1
    out=pt.hexout('convert',9,0,src.encode())
    try:
        root=ET.fromstring(out.decode())
    except Exception as e:
        bad+=1; print('XMLERR',repr(src),e); continue
    items=[(o.get('text'),o.get('_note')) for o in root.iter('outline')]
    # compute expected: preamble note = pre
    exp=[]
    for (t,b) in expect:
        if t=='>>Preamble<<': exp.append((t,None))
        else: exp.append((t,b))
    got=[(t,nn) for (t,nn) in items]
    # compare titles and notes (skip preamble note check here)
    ok=len(got)==len(exp) and all(g[0]==e[0] and (e[1] is None or g[1]==e[1] or (i==len(exp)-1 and g[1].rstrip('\n')==e[1].rstrip('\n'))) for i,(g,e) in enumerate(zip(got,exp)))
    if not ok:
        bad+=1
        if bad<6: print('MISMATCH src=',repr(src),'\n  exp=',exp,'\n  got=',got)
print('n',n,'bad',bad)
