#include <pthread.h>
#include <stdio.h>
#include <stdlib.h>
#include <string.h>
#include "libMultiMarkdown.h"
#include "d_string.h"
static const char*docs[]={"Title: T & x\ncss: style.css\n\n# Head One\n\npara *x* [^1] [Head One][] ![i](pic.png)\n\n[^1]: note\n\n{{TOC}}\n","a | b\n--|--\n1 | 2\n[cap]\n\n* l1\n* l2\n\n> q `c`\n\n[>ab]: abbr\n\nuse ab and {++crit++} \"smart\" -- x...\n","term\n: def\n\n```c\ncode\n```\n\n[?g]: gloss text\n\nuse g [#c]\n\n[#c]: cite\n"};
static short fm[]={FORMAT_HTML,FORMAT_EPUB,FORMAT_LATEX,FORMAT_BEAMER,FORMAT_MEMOIR,FORMAT_FODT,FORMAT_ODT,FORMAT_TEXTBUNDLE_COMPRESSED,FORMAT_OPML,FORMAT_ITMZ};
static void* run(void*arg){ long id=(long)arg; for(int i=0;i<120;i++){ unsigned long ext=EXT_SMART|EXT_NOTES|EXT_CRITIC|((i%5==0)?EXT_RANDOM_FOOT:0)|((i%7==0)?EXT_RANDOM_LABELS:0)|((i%11==0)?EXT_COMPATIBILITY:0); DString*r=mmd_string_convert_to_data(docs[(id+i)%3], ext, fm[(i+id)%10], (i+id)%7, "/tmp/t"); d_string_free(r,true);} return NULL; }
int main(){ pthread_t t[6]; for(long i=0;i<6;i++) pthread_create(&t[i],NULL,run,(void*)i); for(int i=0;i<6;i++) pthread_join(t[i],NULL); puts("done"); return 0; }
