import subprocess, os, binascii
class PT:
    def __init__(self):
        env=dict(os.environ, ASAN_OPTIONS='detect_leaks=0')
        self.p=subprocess.Popen(['/tmp/x/pt'],stdin=subprocess.PIPE,stdout=subprocess.PIPE,stderr=subprocess.DEVNULL,env=env)
    def call(self,op,a1,a2,src:bytes):
        line=f"{op}\t{a1}\t{a2}\t{binascii.hexlify(src).decode()}\n".encode()
        self.p.stdin.write(line); self.p.stdin.flush()
        out=self.p.stdout.readline()
        if not out: raise RuntimeError('worker died on %r %r'%(op,src))
        out=out.rstrip(b'\n')
        return out
    def hexout(self,op,a1,a2,src):
        o=self.call(op,a1,a2,src)
        if o==b'-': return None
        if o==b'=': return b''
        return binascii.unhexlify(o)
def hx(s): return binascii.hexlify(s).decode() or ''
