import sys, random, html as H, difflib
from ptlib import PT
pt=PT()
rnd=random.Random(int(sys.argv[2]) if len(sys.argv)>2 else 1)
SMART=int(sys.argv[4]) if len(sys.argv)>4 else 1
EXT=((1<<3) if SMART else 0)|(1<<4)
WORDS=['alpha','bravo','charlie','delta','echo','foxtrot','golf','hotel','india','juliet']
def words(n=None): return ' '.join(rnd.choice(WORDS) for _ in range(n or rnd.randint(1,3)))
class Ctx:
    def __init__(s): s.defs=[]; s.notes=[]; s.nfn=0; s.used=[]; s.refid=0
def esc(s): return s.replace('&','&amp;').replace('<','&lt;').replace('>','&gt;').replace('"','&quot;')
def Q(open_): 
    if not SMART: return '&quot;'
    return '&#8220;' if open_ else '&#8221;'
def gen_inl(ctx,depth=1,inlink=False):
    out=[]
    for _ in range(rnd.randint(1,4)):
        r=rnd.random()
        if r<0.30: out.append(('t',words()))
        elif r<0.36: out.append(('em','*',[('t',words())]))
        elif r<0.42: out.append(('st','_',[('t',words())]))
        elif r<0.48: out.append(('code',rnd.choice(['x','a<b','x & y','f(x)'])))
        elif r<0.54 and not inlink: out.append(('link',[('t',words())],'http://example.com/'+rnd.choice(WORDS),rnd.choice([None,'Title here'])))
        elif r<0.60 and not inlink:
            ctx.refid+=1; rid=f'ref{ctx.refid}'; url='http://example.org/'+rid; title=rnd.choice([None,'Ref title'])
            ctx.defs.append((rid,url,title,rnd.choice(['"',"'"])))
            out.append(('reflink',rnd.choice(['full','implicit','collapsed']),[('t',words())],rid,url,title))
        elif r<0.64 and not inlink: out.append(('auto','http://auto.example/'+rnd.choice(WORDS)))
        elif r<0.68: out.append(('img',words(),'img/'+rnd.choice(WORDS)+'.png',rnd.choice([None,'Img title'])))
        elif r<0.72: out.append(('escape',rnd.choice('*_`#[]<>&\\+-.!')))
        elif r<0.76: out.append(('entity',rnd.choice(['&copy;','&amp;','&#169;','&#xA9;'])))
        elif r<0.80: out.append(('bare',rnd.choice(['&','<','>'])) if out else ('t',words()))
        elif r<0.86: out.append(('smart',rnd.choice(['dq','sq','apos','en','em','ell'])))
        elif r<0.92 and not inlink:
            ctx.nfn+=1; fid=f'fn{ctx.nfn}'; ctx.notes.append((fid,words(3))); out.append(('fnref',fid))
        else: out.append(('t',words()))
    return out
def ser_inl(xs):
    parts=[]
    for x in xs:
        k=x[0]
        if k=='t': parts.append(x[1])
        elif k=='em': parts.append(x[1]+ser_inl(x[2])+x[1])
        elif k=='st': parts.append(x[1]*2+ser_inl(x[2])+x[1]*2)
        elif k=='code': parts.append('`'+x[1]+'`')
        elif k=='link': parts.append('['+ser_inl(x[1])+']('+x[2]+(' "'+x[3]+'"' if x[3] else '')+')')
        elif k=='reflink':
            form=x[1]
            if form=='full': parts.append('['+ser_inl(x[2])+']['+x[3]+']')
            elif form=='implicit': parts.append('['+x[3]+'][]')
            else: parts.append('['+x[3]+']')
        elif k=='auto': parts.append('<'+x[1]+'>')
        elif k=='img': parts.append('!['+x[1]+']('+x[2]+(' "'+x[3]+'"' if x[3] else '')+')')
        elif k=='escape': parts.append('\\'+x[1])
        elif k=='entity': parts.append(x[1])
        elif k=='bare': parts.append(x[1])
        elif k=='smart':
            parts.append({'dq':'"quoted words"','sq':"'single words'",'apos':"it's",'en':'pages 3--4','em':'wait---what','ell':'and so...'}[x[1]])
        elif k=='fnref': parts.append('note[^'+x[1]+']')
    return ' '.join(parts)
def mod_inl(xs,ctx):
    parts=[]
    for x in xs:
        k=x[0]
        if k=='t': parts.append(x[1])
        elif k=='em': parts.append('<em>'+mod_inl(x[2],ctx)+'</em>')
        elif k=='st': parts.append('<strong>'+mod_inl(x[2],ctx)+'</strong>')
        elif k=='code': parts.append('<code>'+esc(x[1])+'</code>')
        elif k=='link': parts.append('<a href="'+x[2]+'"'+(' title="'+x[3]+'"' if x[3] else '')+'>'+mod_inl(x[1],ctx)+'</a>')
        elif k=='reflink':
            text= mod_inl(x[2],ctx) if x[1]=='full' else x[3]
            parts.append('<a href="'+x[4]+'"'+(' title="'+x[5]+'"' if x[5] else '')+'>'+text+'</a>')
        elif k=='auto': parts.append('<a href="'+x[1]+'">'+x[1]+'</a>')
        elif k=='img': parts.append('<img src="'+x[2]+'" alt="'+x[1]+'"'+(' title="'+x[3]+'"' if x[3] else '')+' />')
        elif k=='escape': parts.append(esc(x[1]))
        elif k=='entity': parts.append(x[1])
        elif k=='bare': parts.append(esc(x[1]))
        elif k=='smart':
            if SMART: parts.append({'dq':'&#8220;quoted words&#8221;','sq':'&#8216;single words&#8217;','apos':'it&#8217;s','en':'pages 3&#8211;4','em':'wait&#8212;what','ell':'and so&#8230;'}[x[1]])
            else: parts.append({'dq':'&quot;quoted words&quot;','sq':"'single words'",'apos':"it's",'en':'pages 3--4','em':'wait---what','ell':'and so...'}[x[1]])
        elif k=='fnref':
            if x[1] not in ctx.used: ctx.used.append(x[1])
            n=ctx.used.index(x[1])+1
            parts.append(f'note<a href="#fn:{n}" id="fnref:{n}" title="see footnote" class="footnote"><sup>{n}</sup></a>')
    return ' '.join(parts)
def gen_doc():
    ctx=Ctx(); blocks=[]
    for _ in range(rnd.randint(1,4)):
        r=rnd.random()
        if r<0.6: blocks.append(('para',[gen_inl(ctx) for _ in range(rnd.randint(1,2))], rnd.choice(['nl','2sp','bs'])))
        elif r<0.75: blocks.append(('atx',rnd.randint(1,6),[('t',words())]+[x for x in gen_inl(ctx) if x[0] in('em','st','code','t')]))
        elif r<0.85: blocks.append(('figure',words(),'img/'+rnd.choice(WORDS)+'.png'))
        elif not (blocks and blocks[-1][0]=='ul'): blocks.append(('ul',[gen_inl(ctx) for _ in range(rnd.randint(1,3))]))
    return ctx,blocks
def label(s): return ''.join(c.lower() for c in s if c.isalnum() or c in '._-:')
def ser_doc(ctx,blocks):
    out=[]
    for b in blocks:
        if b[0]=='para':
            sep={'nl':'\n','2sp':'  \n','bs':'\\\n'}[b[2]]
            out.append(sep.join(ser_inl(l) for l in b[1]))
        elif b[0]=='atx': out.append('#'*b[1]+' '+ser_inl(b[2]))
        elif b[0]=='figure': out.append('!['+b[1]+']('+b[2]+')')
        elif b[0]=='ul': out.append('\n'.join('* '+ser_inl(i) for i in b[1]))
    for rid,url,title,q in ctx.defs:
        close={'"':'"',"'":"'",'(':')'}[q]
        out.append('['+rid+']: '+url+(' '+q+title+close if title else ''))
    for fid,text in ctx.notes: out.append('[^'+fid+']: '+text)
    return '\n\n'.join(out)+'\n'
def mod_doc(ctx,blocks):
    out=[]
    for b in blocks:
        if b[0]=='para':
            sep={'nl':'\n','2sp':'<br />\n','bs':'<br />\n'}[b[2]]
            out.append('<p>'+sep.join(mod_inl(l,ctx) for l in b[1])+'</p>')
        elif b[0]=='atx': out.append(f'<h{b[1]} id="{label(ser_inl(b[2]))}">'+mod_inl(b[2],ctx)+f'</h{b[1]}>')
        elif b[0]=='figure': out.append('<figure>\n<img src="'+b[2]+'" alt="'+b[1]+'" />\n<figcaption>'+b[1]+'</figcaption>\n</figure>')
        elif b[0]=='ul': out.append('<ul>\n'+'\n'.join('<li>'+mod_inl(i,ctx)+'</li>' for i in b[1])+'\n</ul>')
    if ctx.used:
        notes=dict(ctx.notes)
        fn='<div class="footnotes">\n<hr />\n<ol>\n\n'
        for i,fid in enumerate(ctx.used):
            fn+=f'<li id="fn:{i+1}">\n<p>{notes[fid]} <a href="#fnref:{i+1}" title="return to body" class="reversefootnote">&#160;&#8617;&#xfe0e;</a></p>\n</li>\n\n'
        fn+='</ol>\n</div>'
        out.append(fn)
    return '\n\n'.join(out)+'\n'
bad=0;n=0;shown=0;cls={}
for it in range(int(sys.argv[1])):
    ctx,blocks=gen_doc()
    src=ser_doc(ctx,blocks); exp=mod_doc(ctx,blocks)
    got=pt.hexout('convert',0,EXT,src.encode()).decode(); n+=1
    if got!=exp:
        bad+=1
        d=[l for l in difflib.unified_diff(exp.split('\n'),got.split('\n'),lineterm='',n=0) if not l.startswith(('---','+++','@@'))]
        if shown<int(sys.argv[3]):
            shown+=1; print('==== SRC'); print(src,end=''); print('---- DIFF'); print('\n'.join(d[:8]))
print('n',n,'bad',bad)
