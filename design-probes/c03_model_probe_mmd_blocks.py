import sys, random, difflib
from ptlib import PT
pt=PT()
rnd=random.Random(int(sys.argv[2]) if len(sys.argv)>2 else 1)
EXT=(1<<4)   # notes only, smart off
W=['alpha','bravo','charlie','delta','echo','foxtrot','golf']
def words(n=None): return ' '.join(rnd.choice(W) for _ in range(n or rnd.randint(1,3)))
def cell():
    r=rnd.random()
    if r<0.6: t=words(2); return t,t
    if r<0.8: t=words(1); return '*'+t+'*','<em>'+t+'</em>'
    t=rnd.choice(['x','a&b']); return '`'+t+'`','<code>'+t.replace('&','&amp;')+'</code>'
AL={'n':('---',''),'l':(':---',' style="text-align:left;"'),'r':('---:',' style="text-align:right;"'),'c':(':---:',' style="text-align:center;"')}
COL={'n':'<col />','l':'<col style="text-align:left;"/>','r':'<col style="text-align:right;"/>','c':'<col style="text-align:center;"/>'}
def table():
    nc=rnd.randint(1,4); al=[rnd.choice('nlrc') for _ in range(nc)]
    hdr=[cell() for _ in range(nc)]; rows=[[cell() for _ in range(nc)] for _ in range(rnd.randint(1,3))]
    src='| '+' | '.join(c[0] for c in hdr)+' |\n| '+' | '.join(AL[a][0] for a in al)+' |\n'+'\n'.join('| '+' | '.join(c[0] for c in r)+' |' for r in rows)
    h='<table>\n<colgroup>\n'+''.join(COL[a]+'\n' for a in al)+'</colgroup>\n\n<thead>\n<tr>\n'+''.join(f'\t<th{AL[a][1]}> {c[1]} </th>\n' for a,c in zip(al,hdr))+'</tr>\n</thead>\n\n<tbody>\n'
    for r in rows: h+='<tr>\n'+''.join(f'\t<td{AL[a][1]}> {c[1]} </td>\n' for a,c in zip(al,r))+'</tr>\n'
    h+='</tbody>\n</table>'
    return src,h
def deflist():
    terms=[words(2) for _ in range(rnd.randint(1,2))]; defs=[words(3) for _ in range(rnd.randint(1,2))]
    src='\n'.join(terms)+'\n'+'\n'.join(': '+d for d in defs)
    h='<dl>\n'+''.join(f'<dt>{t}</dt>\n' for t in terms)+'\n\n'.join(f'<dd>{d}</dd>' for d in defs)+'\n</dl>'
    return src,h
def mathp():
    m=rnd.choice(['x^2 + y_1','{e}^{i\\pi }+1=0','a < b','a & b'])
    me=m.replace('&','&amp;').replace('<','&lt;')
    k=rnd.choice(['paren','dollar','bracket','ddollar'])
    pre=words(1); post=words(1)
    if k=='paren': return f'{pre} \\\\({m}\\\\) {post}', f'<p>{pre} <span class="math">\\({me}\\)</span> {post}</p>'
    if k=='dollar': return f'{pre} ${m}$ {post}', f'<p>{pre} <span class="math">\\({me}\\)</span> {post}</p>'
    if k=='bracket': return f'\\\\[ {m} \\\\]', f'<p><span class="math">\\[ {me} \\]</span></p>'
    return f'$${m}$$', f'<p><span class="math">\\[{me}\\]</span></p>'
def supsub():
    k=rnd.choice(['sup1','sup2','sub1','sub2'])
    a=rnd.choice(['x','mass','E']); b=rnd.choice(['2','n','ab'])
    if k=='sup1': return f'{a}^{b} more', f'<p>{a}<sup>{b}</sup> more</p>'
    if k=='sup2': return f'{a}^{b}^ more', f'<p>{a}<sup>{b}</sup> more</p>'
    if k=='sub1': return f'{a}~{b} more', f'<p>{a}<sub>{b}</sub> more</p>'
    return f'{a}~{b}~ more', f'<p>{a}<sub>{b}</sub> more</p>'
def para(): t=words(4); return t,'<p>'+t+'</p>'
bad=0;n=0;shown=0
for it in range(int(sys.argv[1])):
    blocks=[]
    for _ in range(rnd.randint(1,4)):
        g=rnd.choice([table,deflist,mathp,supsub,para,para])
        if blocks and blocks[-1][2] in('table','deflist') and g.__name__ in('table','deflist'): g=para
        s,h=g(); blocks.append((s,h,g.__name__))
    src='\n\n'.join(b[0] for b in blocks)+'\n'; exp='\n\n'.join(b[1] for b in blocks)+'\n'
    got=pt.hexout('convert',0,EXT,src.encode()).decode(); n+=1
    if got!=exp:
        bad+=1
        if shown<int(sys.argv[3]):
            shown+=1; print('==== SRC'); print(src,end=''); print('---- DIFF')
            print('\n'.join(l for l in difflib.unified_diff(exp.split('\n'),got.split('\n'),lineterm='',n=0) if not l.startswith(('---','+++','@@')))[:600])
print('n',n,'bad',bad)
