import subprocess, itertools, random
EXE='/repo/_build/multimarkdown'
def r(doc, *flags):
    return subprocess.run([EXE,*flags],input=doc.encode(),capture_output=True).stdout.decode()
blocks={
 'para':'Some *plain* text here\nsecond line',
 'atx':'## Heading Two ##',
 'atx_open':'# Heading One',
 'setext1':'Setext One\n==========',
 'setext2':'Setext Two\n----------',
 'hr':'* * *',
 'hr2':'---',
 'fence':'```\ncode <x> & y\n```',
 'fence_lang':'````python\nprint("x")\n````',
 'indent':'    indented code\n    more',
 'quote':'> quoted *text*\n> more',
 'quote2':'> # H in quote\n>\n> para in quote',
 'ul':'* a\n* b',
 'ol':'1. a\n2. b',
 'ul_loose':'* a\n\n* b',
 'table':'a | b\n--|--\n1 | 2',
 'deflist':'term\n: definition',
 'html':'<div>\nraw\n</div>',
}
names=list(blocks)
bad=0;n=0
for flags in [(),('-c',)]:
  single={k:r(v+'\n',*flags) for k,v in blocks.items()}
  for a,b in itertools.product(names,names):
    doc=blocks[a]+'\n\n'+blocks[b]+'\n'
    exp=single[a].rstrip('\n')+'\n\n'+single[b].rstrip('\n')+'\n'
    got=r(doc,*flags); n+=1
    if got!=exp:
        bad+=1; print('MISMATCH',flags,a,b); 
print(n,bad)
