import re, html, sys
from ptlib import PT
pt=PT()
EXT=(1<<3)|(1<<4)|(1<<9)  # smart notes critic
FM={'html':0,'latex':2,'beamer':3,'memoir':4,'fodt':5,'opml':9}
RES='&<>"\\{}$%#_^~'
def spell(ch):  # source spelling that makes ch text
    return ch if ch in '&<>"%#' else '\\'+ch
slots={}
n=[0]
def S(ch,slot):
    n[0]+=1; k=n[0]; slots[k]=(ch,slot); return f"q{k}a{spell(ch)}b{k}q"
doc=[]
W=[0]
def w(): W[0]+=1; return f"w{W[0]:06d}"
for ch in RES:
    doc.append(f"{w()} {S(ch,'para')} {w()}")
for ch in RES:
    doc.append(f"## {w()} {S(ch,'heading')}")
doc.append('\n'.join(f"* {w()} {S(ch,'item')}" for ch in RES))
doc.append("| h1 | h2 |\n| --- | --- |\n"+'\n'.join(f"| {w()} | {S(ch,'cell')} |" for ch in RES if ch!='|'))
for ch in RES:
    title=S(ch,'linktitle') if ch!='"' else 't'
    doc.append("["+w()+" "+S(ch,'linktext')+"](http://e.x/"+w()+' "'+title+'") '+w())
for ch in RES:
    doc.append(f"> {w()} {S(ch,'quote')}")
src='\n\n'.join(doc)+'\n'
ACCEPT={
 'xml':lambda s: html.unescape(s),
}
def un_latex(s):
    reps=[('\\textbackslash{}','\\'),('$\\backslash$','\\'),('\\ensuremath{\\sim}','~'),('\\textasciitilde{}','~'),('\\~{}','~'),('\\^{}','^'),('\\textasciicircum{}','^'),('$<$','<'),('$>$','>'),('\\textless{}','<'),('\\textgreater{}','>'),('\\&','&'),('\\%','%'),('\\#','#'),('\\_','_'),('\\{','{'),('\\}','}'),('\\$','$'),("''",'"'),('``','"')]
    out='';i=0
    while i<len(s):
        for a,b in reps:
            if s.startswith(a,i): out+=b;i+=len(a);break
        else:
            out+=s[i]; i+=1
    return out
for name,f in FM.items():
    out=pt.hexout('data',f,EXT,src.encode()).decode('utf-8','replace')
    words=re.findall(r'w\d{6}',out)
    srcwords=re.findall(r'w\d{6}',src)
    order_ok = words==srcwords
    bad=[]
    for k,(ch,slot) in slots.items():
        m=re.search(f"q{k}a(.*?)b{k}q",out,re.S)
        if not m: bad.append((k,ch,slot,'MISSING')); continue
        mid=m.group(1)
        if name in('html','fodt','opml'):
            dec=html.unescape(mid)
            raw_bad = (mid==ch and ch in '&<>"')
            if name=='opml': dec=dec.lstrip('\\') if dec!=ch and dec=='\\'+ch else dec   # opml stores source, incl. the backslash
        else:
            dec=un_latex(mid); raw_bad=(mid==ch and ch in '\\{}$%&#_^~')
        if dec!=ch or raw_bad: bad.append((k,ch,slot,mid))
    print(name,'words',len(words),'/',len(srcwords),'order_ok',order_ok,'badslots',bad[:12])
