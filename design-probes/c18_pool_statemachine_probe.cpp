#include <rapidcheck.h>
#include <rapidcheck/state.h>
#include <sanitizer/asan_interface.h>
#include <sanitizer/allocator_interface.h>
#include <string>
#include <vector>
#include <map>
#include <cstring>
extern "C" {
#include "libMultiMarkdown.h"
#include "d_string.h"
#include "token.h"
}
static int G_count=0; static bool G_pool=false;
static std::vector<std::string> DOCS; static std::map<int,std::string> REF;
static std::string conv(int i){ char*r=mmd_string_convert(DOCS[i].c_str(),EXT_SMART|EXT_NOTES|EXT_CRITIC,FORMAT_HTML,0); std::string s(r); free(r); return s; }
static size_t checksum(token*t){ size_t h=1469598103934665603ULL; std::vector<token*> st{t}; while(!st.empty()){ token*x=st.back(); st.pop_back(); for(;x;x=x->next){ h=(h^x->type)*1099511628211ULL; h=(h^x->start)*1099511628211ULL; h=(h^x->len)*1099511628211ULL; if(x->child) st.push_back(x->child);} } return h; }
struct Held{ mmd_engine*e; token*root; size_t sum; int level; bool released; };
struct Model{ int count=0; bool pool=false; std::vector<int> heldLevels; };
struct Sut{ std::vector<Held> held; };
using Cmd=rc::state::Command<Model,Sut>;
static void checkHeld(const Model&m,Sut&u){
  for(size_t i=0;i<u.held.size();i++){ auto&h=u.held[i];
    if(!h.released){ RC_ASSERT(!__asan_address_is_poisoned(h.root)); RC_ASSERT(checksum(h.root)==h.sum); }
    else { RC_ASSERT(__asan_address_is_poisoned(h.root)); }
  }
}
struct Init:Cmd{ void apply(Model&m)const override{ m.count++; m.pool=true;} void run(const Model&m,Sut&u)const override{ token_pool_init(); G_count++; G_pool=true; checkHeld(m,u);} void show(std::ostream&o)const override{o<<"Init";}};
struct Drain:Cmd{ void checkPreconditions(const Model&m)const override{ RC_PRE(m.count>=1);} void apply(Model&m)const override{ m.count--; } void run(const Model&m,Sut&u)const override{ size_t before=__sanitizer_get_current_allocated_bytes(); token_pool_drain(); G_count--; if(m.count==1){ for(auto&h:u.held) h.released=true; RC_ASSERT(__sanitizer_get_current_allocated_bytes()<=before); } checkHeld(m,u);} void show(std::ostream&o)const override{o<<"Drain";}};
struct Free:Cmd{ void checkPreconditions(const Model&m)const override{ RC_PRE(m.count==0 && m.pool);} void apply(Model&m)const override{ m.pool=false;} void run(const Model&m,Sut&u)const override{ token_pool_free(); G_pool=false; checkHeld(m,u);} void show(std::ostream&o)const override{o<<"Free";}};
struct Convert:Cmd{ int i=*rc::gen::inRange<int>(0,(int)DOCS.size()); void checkPreconditions(const Model&m)const override{ RC_PRE(m.count>=1);} void apply(Model&)const override{} void run(const Model&m,Sut&u)const override{ RC_ASSERT(conv(i)==REF[i]); checkHeld(m,u);} void show(std::ostream&o)const override{o<<"Convert("<<i<<")";}};
struct Parse:Cmd{ int i=*rc::gen::inRange<int>(0,(int)DOCS.size()); void checkPreconditions(const Model&m)const override{ RC_PRE(m.count>=1);} void apply(Model&)const override{} void run(const Model&m,Sut&u)const override{ mmd_engine*e=mmd_engine_create_with_string(DOCS[i].c_str(),EXT_SMART|EXT_NOTES); mmd_engine_parse_string(e); token*r=mmd_engine_root(e); u.held.push_back({e,r,checksum(r),m.count,false}); checkHeld(m,u);} void show(std::ostream&o)const override{o<<"Parse("<<i<<")";}};
int main(){
  DOCS.push_back("hello *world*\n\n* a\n* b\n");
  DOCS.push_back("# H\n\npara [^1] and [link](http://x.y)\n\n[^1]: note\n");
  for(int m: {250,255,256,257,300,1500}){ std::string s; for(int k=0;k<m;k++) s+="*a* "; s+="\n"; DOCS.push_back(s);}  
  token_pool_init(); for(size_t i=0;i<DOCS.size();i++) REF[i]=conv(i); token_pool_drain(); token_pool_free();
  struct Cleanup{ ~Cleanup(){ while(G_count>0){ token_pool_drain(); G_count--; } if(G_pool){ token_pool_free(); G_pool=false; } } };
  bool ok=rc::check("pool protocol",[&]{ Cleanup c; Model m; Sut u; rc::state::check(m,u,rc::state::gen::execOneOfWithArgs<Init,Init,Drain,Drain,Free,Convert,Convert,Parse>());
      // cleanup: bring to clean state
      });
  return ok?0:1;
}
