import sys, re
from hypothesis import given, settings, strategies as st, seed, HealthCheck, assume
from ptlib import PT, hx
pt=PT()
KEYCH='abcXYZ019 ._-'
key=st.tuples(st.sampled_from('abXY09'), st.text(alphabet=KEYCH,max_size=8)).map(lambda p:(p[0]+p[1]).rstrip(' \t'))
VALCH=list('abc XYZ09&:;,.<>"\'*_#[]()!?/=+-~$%^{}|`@')+['é','à',' ','中','😀','\t']
val1=st.text(alphabet=VALCH,min_size=1,max_size=12)
def norm_key(k): return ''.join(c.lower() for c in k if c.isalnum() and ord(c)<128 or c in '._-' or ord(c)>127)
def norm_val(lines): return ' '.join(' '.join(lines).replace('\t',' ').replace('\r',' ').replace('\n',' ').split(' ')).strip()
def norm_val(lines):
    s=' '.join(lines)
    return re.sub(r'[ \t\r\n]+',' ',s).strip(' ')
entry=st.tuples(key, val1, st.lists(val1,max_size=2), st.sampled_from([' ','\t','  ','']), st.sampled_from(['','  ','\t','    ']))
stats={'n':0,'bad':0}
@settings(max_examples=int(sys.argv[1]),deadline=None,database=None,suppress_health_check=list(HealthCheck))
@seed(int(sys.argv[2]) if len(sys.argv)>2 else 1)
@given(st.lists(entry,min_size=1,max_size=5), st.sampled_from(['blank+body','eofnl','eof']), st.sampled_from(['\n','\r\n']), st.booleans())
def t(entries, term, nl, yaml):
    # unique normalized keys
    nks=[norm_key(e[0]) for e in entries]
    assume(len(set(nks))==len(nks) and all(nks))
    lines=[]
    for (k,v,cont,sep,ind) in entries:
        v0=v.strip(' \t\u00a0'); assume(v0!='')
        assume(not v0.startswith('//'))
        assume(not re.match(r'^\d+\.(\s|$)',k))
        lines.append(k+':'+sep+v)
        for c in cont:
            c0=c.strip(' \t\u00a0'); assume(c0!='' ); assume(':' not in c); assume(any(ch.isalnum() for ch in c))  # continuation must not look like a key line
            assume(not re.match(r'^\s*([-*+]|\d+\.)\s',c)); 
            lines.append(ind+c)
    # known findings excluded: '&' followed by space; eof without newline
    src=''
    if yaml: src+='---'+nl
    src+=nl.join(lines)
    if yaml: src+=nl+'---'
    if term=='blank+body': src+=nl+nl+'Body text here.'+nl
    elif term=='eofnl': src+=nl
    elif term=='eof':
        assume(False)   # known finding
    b=src.encode()
    stats['n']+=1
    keys=pt.hexout('keys',0,0,b)
    expkeys=''.join(k+'\n' for k in nks)
    if keys is None or keys.decode()!=expkeys:
        stats['bad']+=1; raise AssertionError(f"KEYS src={src!r} exp={expkeys!r} got={keys!r}")
    for (k,v,cont,sep,ind),nk in zip(entries,nks):
        exp=norm_val([v]+cont)
        if re.search(r'&(\s|$)',' '.join([v]+cont)) or any(x.rstrip().endswith('&') for x in [v]+cont): continue  # known finding: space after & dropped
        if '\\' in v or any('\\' in c for c in cont): continue
        got=pt.hexout('value',hx(k.encode()),0,b)
        if got is None or got.decode()!=exp:
            stats['bad']+=1; raise AssertionError(f"VALUE src={src!r} key={k!r} exp={exp!r} got={got!r}")
try: t()
finally: print(stats)
