#include <string>
#include <cstdlib>
#include <cstdio>
#include <cstring>
#include <csetjmp>
#include <unistd.h>
extern "C" {
#include "libMultiMarkdown.h"
#include "d_string.h"
#include "token.h"
void ran_start(long seed);
}
static const char* CP[]={"\xc2\xa0","\xc3\xa0","\xc3\x82","\xc3\x83","\xc2\x85","\xe2\x80\xa8","\xef\xbf\xbc","\xef\xbb\xbf","\xcc\x81","\xe4\xb8\xad","\xf0\x9f\x98\x80","\xf4\x8f\xbf\xbf","\xc3\xa9","\xe2\x80\x94","\xe2\x80\x9c","\xd7\x90","\xc2\xab","\xe2\x82\xac","\xe1\xb8\xbc","\xc5\x81"};
static const int NCP=sizeof(CP)/sizeof(CP[0]);
// strict utf8 validator
static bool valid(const unsigned char*s,size_t n){ size_t i=0; while(i<n){ unsigned c=s[i]; if(c<0x80){i++;continue;} int l; unsigned cp; if((c&0xE0)==0xC0){l=2;cp=c&0x1F;} else if((c&0xF0)==0xE0){l=3;cp=c&0x0F;} else if((c&0xF8)==0xF0){l=4;cp=c&0x07;} else return false; if(i+l>n) return false; for(int k=1;k<l;k++){ if((s[i+k]&0xC0)!=0x80) return false; cp=(cp<<6)|(s[i+k]&0x3F);} if(l==2&&cp<0x80) return false; if(l==3&&(cp<0x800||(cp>=0xD800&&cp<=0xDFFF))) return false; if(l==4&&(cp<0x10000||cp>0x10FFFF)) return false; i+=l;} return true; }
static jmp_buf jb; static int in_case=0;
extern "C" void __real_exit(int);
extern "C" void __wrap_exit(int c){ if(in_case){ longjmp(jb,1);} __real_exit(c); }
extern "C" int LLVMFuzzerInitialize(int*,char***){ token_pool_init(); return 0; }
extern "C" int LLVMFuzzerTestOneInput(const uint8_t *data, size_t size) {
  if(size<4) return 0;
  unsigned t0=data[size-1], t1=data[size-2], t2=data[size-3]; size-=3;
  std::string doc; 
  for(size_t i=0;i<size;i++){ unsigned char c=data[i]; if(c==0) continue; if(c<0x80) doc.push_back(c); else doc+=CP[c%NCP]; }
  static const short F[]={FORMAT_HTML,FORMAT_LATEX,FORMAT_BEAMER,FORMAT_MEMOIR,FORMAT_FODT,FORMAT_OPML};
  unsigned long ext = (t1&1?EXT_SMART:0)|EXT_NOTES|EXT_CRITIC|(t1&2?EXT_COMPATIBILITY:0)|(t1&4?EXT_COMPLETE:0)|(t1&8?EXT_NO_LABELS:0)|(t1&16?EXT_OBFUSCATE:0)|(t1&32?EXT_CRITIC_ACCEPT:0);
  if(!valid((const unsigned char*)doc.data(),doc.size())) __builtin_trap();
  ran_start(310952L); srand(1);
  for(int f=0;f<6;f++){
    token_pool_init(); in_case=1;
    if(!setjmp(jb)){
      DString*r=mmd_string_convert_to_data(doc.c_str(),ext,F[f],t2%7,NULL);
      if(r){ if(!valid((const unsigned char*)r->str,r->currentStringLength)){ fprintf(stderr,"INVALID UTF8 fmt=%d ext=%lu\n",F[f],ext); FILE*o=fopen("bad_utf8_doc.bin","wb"); fwrite(doc.data(),1,doc.size(),o); fclose(o); __builtin_trap(); } d_string_free(r,true);}    
    }
    in_case=0; token_pool_drain();
  }
  // metadata api
  char*k=mmd_string_metadata_keys((char*)doc.c_str()); if(k){ if(!valid((unsigned char*)k,strlen(k))){ fprintf(stderr,"INVALID UTF8 keys\n"); __builtin_trap(); } free(k);}  
  return 0;
}
