#include <string>
#include <cstdlib>
#include <cstdio>
#include <cstring>
#include <csetjmp>
#include <unordered_set>
#include <vector>
extern "C" {
#include "libMultiMarkdown.h"
#include "d_string.h"
#include "token.h"
#include "token_pairs.h"
void ran_start(long seed);
}
static jmp_buf jb; static int in_case=0;
extern "C" void __real_exit(int);
extern "C" void __wrap_exit(int c){ if(in_case){ longjmp(jb,1);} __real_exit(c); }
static const char* fail=nullptr; static token* failtok=nullptr;
static void walk(token*root,size_t L){
  std::unordered_set<token*> seen; std::vector<token*> st; st.push_back(root);
  while(!st.empty()){
    token*first=st.back(); st.pop_back();
    token*prev=nullptr; size_t last=0;
    for(token*t=first;t;t=t->next){
      if(!seen.insert(t).second){ fail="I6 revisit"; failtok=t; return; }
      if(t!=root && t->prev!=prev){ fail="I3 prev"; failtok=t; return; }
      if(t->start>L||t->len>L||t->start+t->len>L){ fail="I2 span"; failtok=t; return; }
      if(prev && t->start<last){ fail="I4 order"; failtok=t; return; }
      if(t->mate && t->mate->mate!=t){ fail="I5 mate"; failtok=t; return; }
      if(t->type>=kMaxTokenTypes){ fail="I7 type"; failtok=t; return; }
      last=t->start; prev=t;
      if(t->child) st.push_back(t->child);
    }
  }
}
extern "C" int LLVMFuzzerInitialize(int*,char***){ token_pool_init(); return 0; }
extern "C" int LLVMFuzzerTestOneInput(const uint8_t *data, size_t size) {
  if(size<4) return 0;
  unsigned t1=data[size-1], t2=data[size-2]; size-=2;
  std::string doc((const char*)data,size); size_t z=doc.find('\0'); if(z!=std::string::npos) doc.resize(z);
  unsigned long ext = (t1&1?EXT_SMART:0)|(t1&64?0:EXT_NOTES)|(t1&128?0:EXT_CRITIC)|(t1&2?EXT_COMPATIBILITY:0)|(t1&4?EXT_COMPLETE:0)|(t1&8?EXT_NO_LABELS:0)|(t1&16?EXT_NO_METADATA:0)|(t1&32?EXT_CRITIC_ACCEPT:0);
  static const short F[]={-1,FORMAT_HTML,FORMAT_LATEX,FORMAT_BEAMER,FORMAT_MEMOIR,FORMAT_FODT,FORMAT_OPML,FORMAT_ITMZ};
  int fi=t2%8;
  ran_start(310952L); srand(1);
  token_pool_init(); in_case=1; fail=nullptr;
  const char*phase="parse";
  if(!setjmp(jb)){
    mmd_engine*e=mmd_engine_create_with_string(doc.c_str(),ext);
    mmd_engine_parse_string(e);
    token*root=mmd_engine_root(e); size_t L=doc.size();
    if(!root){ fail="I1 null root"; }
    else {
      if(root->type!=DOC_START_TOKEN||root->start!=0||root->len!=L||root->next||root->prev){ fail="I1 root span"; failtok=root; }
      if(!fail) walk(root,L);
      if(!fail && F[fi]>=0){ phase="export"; DString*o=d_string_new(""); mmd_engine_export_token_tree(o,e,F[fi]); d_string_free(o,true); root=mmd_engine_root(e); if(root) walk(root,L); }
    }
    if(fail){ fprintf(stderr,"TREE-VIOLATION %s phase=%s fmt=%d ext=%lu type=%d start=%zu len=%zu L=%zu\n",fail,phase,F[fi],ext,failtok?failtok->type:-1,failtok?failtok->start:0,failtok?failtok->len:0,L); __builtin_trap(); }
    mmd_engine_free(e,true);
  }
  in_case=0; token_pool_drain();
  return 0;
}
