// batch probe tool: each input line: op<TAB>arg1<TAB>arg2<TAB>hexsrc ; output line: hex result (or "-" for NULL) [<TAB>extra]
#include <stdio.h>
#include <string.h>
#include <stdlib.h>
#include "libMultiMarkdown.h"
#include "d_string.h"
#include "token.h"
static char*unhex(const char*h,size_t*n){ size_t l=strlen(h)/2; char*b=malloc(l+1); for(size_t i=0;i<l;i++){ unsigned v; sscanf(h+2*i,"%2x",&v); b[i]=(char)v;} b[l]=0; if(n)*n=l; return b; }
static void puthex(const char*s,size_t n){ if(!s){ printf("-"); return;} if(n==0) printf("="); for(size_t i=0;i<n;i++) printf("%02x",(unsigned char)s[i]); }
int main(){
  char*line=NULL; size_t cap=0; ssize_t r;
  token_pool_init();
  while((r=getline(&line,&cap,stdin))>0){
    if(line[r-1]=='\n') line[r-1]=0;
    char*op=strtok(line,"\t"); char*a1=strtok(NULL,"\t"); char*a2=strtok(NULL,"\t"); char*hx=strtok(NULL,"\t");
    size_t n; char*src=unhex(hx?hx:"",&n);
    token_pool_init();
    if(!strcmp(op,"accept")||!strcmp(op,"reject")){ DString*d=d_string_new(src); long s=atol(a1), l=atol(a2); if(l<0){ if(op[0]=='a') mmd_critic_markup_accept(d); else mmd_critic_markup_reject(d);} else { if(op[0]=='a') mmd_critic_markup_accept_range(d,s,l); else mmd_critic_markup_reject_range(d,s,l);} puthex(d->str,d->currentStringLength); d_string_free(d,true);}    
    else if(!strcmp(op,"convert")){ char*o=mmd_string_convert(src,strtoul(a2,NULL,10),atoi(a1),0); puthex(o,strlen(o)); free(o);}    
    else if(!strcmp(op,"data")){ DString*o=mmd_string_convert_to_data(src,strtoul(a2,NULL,10),atoi(a1),0,NULL); puthex(o->str,o->currentStringLength); d_string_free(o,true);}    
    else if(!strcmp(op,"keys")){ char*o=mmd_string_metadata_keys(src); puthex(o,o?strlen(o):0); free(o);}    
    else if(!strcmp(op,"hasmeta")){ size_t e=0; int h=mmd_string_has_metadata(src,&e); printf("%d %zu",h,e);}    
    else if(!strcmp(op,"value")){ char*k=unhex(a1,NULL); char*o=mmd_string_metavalue_for_key(src,k); puthex(o,o?strlen(o):0); free(o); free(k);}    
    else if(!strcmp(op,"update")){ char*k=unhex(a1,NULL); char*v=unhex(a2,NULL); char*o=mmd_string_update_metavalue_for_key(src,k,v); puthex(o,strlen(o)); free(o); free(k); free(v);}    
    else if(!strcmp(op,"opml2text")){ DString*o=mmd_string_convert_opml_to_text(src); puthex(o->str,o->currentStringLength); d_string_free(o,true);}    
    printf("\n"); fflush(stdout);
    token_pool_drain(); free(src);
  }
  return 0;
}
