import sys, random, glob, re
from ptlib import PT
pt=PT()
rnd=random.Random(1)
SM,NOTES,CRIT=(1<<3),(1<<4),(1<<9); COMPLETE,SNIPPET=(1<<1),(1<<2)
BASE=SM|NOTES|CRIT
def strip_meta(t):
    # corpus files start with 'title:' lines then blank
    m=re.match(r'^((?:[A-Za-z][^\n]*:[^\n]*\n)+)\n',t)
    return t[m.end():] if m else t
bodies=[]
for f in sorted(glob.glob('/repo/tests/MMD6Tests/*.text')):
    t=open(f,encoding='utf-8',errors='replace').read()
    b=strip_meta(t)
    if re.match(r'^[A-Za-z0-9][^\n:]*:',b): continue
    if '[%' in b: continue
    bodies.append((f.split('/')[-1],b))
OTHER=['Title','Author','Date','CSS','Keywords','Copyright','foo','My Key','latex config','html header','x-y.z','Subtitle']
CONTROL=['Base Header Level','language','quotes language','latex mode','HTML Header Level','latex header level']
VALS=['Some value','a & b','x: y','<b>"q"</b>','2','de','memoir','über 中','*em*','[l](u)','{{TOC}}','[^1]']
def meta(keys): 
    ks=rnd.sample(keys,rnd.randint(1,min(4,len(keys))))
    return ''.join(f'{k}: {rnd.choice(VALS)}\n' for k in ks)+'\n'
bad=0;n=0
for fmt in (0,2,3,4):
  for name,b in bodies:
    if not b.strip(): continue
    sB=pt.hexout('convert',fmt,BASE|SNIPPET,b.encode())
    for trial in range(3):
        M=meta(OTHER)
        src=(M+b).encode()
        sn=pt.hexout('convert',fmt,BASE|SNIPPET,src); co=pt.hexout('convert',fmt,BASE|COMPLETE,src); de=pt.hexout('convert',fmt,BASE,src)
        n+=1
        probs=[]
        if sn.rstrip(b'\n') not in co: probs.append('R1 snippet not inside complete')
        if de not in (sn,co): probs.append('R2 default neither')
        elif de!=co: probs.append('R2 default not complete with other keys')
        if sn!=sB: probs.append('R3 snippet changed by metadata')
        if probs:
            bad+=1
            if bad<12: print(fmt,name,repr(M),probs)
    # control-only metadata -> default == snippet
    Mc=''.join(f'{k}: {v}\n' for k,v in [('language','en'),('quotes language','english')])+'\n'
    src=(Mc+b).encode()
    sn=pt.hexout('convert',fmt,BASE|SNIPPET,src); de=pt.hexout('convert',fmt,BASE,src)
    if de!=sn: bad+=1; print(fmt,name,'control-only default != snippet')
    if sn!=sB: bad+=1; print(fmt,name,'control-only (en) changed snippet')
print('n',n,'bad',bad,'bodies',len(bodies))
