import sys, subprocess, os, binascii, random, re
import xml.parsers.expat as expat
class PT:
    def __init__(s,exe):
        s.p=subprocess.Popen([exe],stdin=subprocess.PIPE,stdout=subprocess.PIPE,stderr=subprocess.DEVNULL,env=dict(os.environ,ASAN_OPTIONS='detect_leaks=0'))
    def hexout(s,op,a1,a2,src):
        s.p.stdin.write(f"{op}\t{a1}\t{a2}\t{binascii.hexlify(src).decode()}\n".encode()); s.p.stdin.flush()
        o=s.p.stdout.readline().rstrip(b'\n')
        if o==b'': raise RuntimeError('died')
        return None if o==b'-' else (b'' if o==b'=' else binascii.unhexlify(o))
for exe in ('/tmp/m/pt_orig','/tmp/m/pt_mut'):
    pt=PT(exe); print('=====',exe)
    # M1 (C08): link title with hostile chars in FODT must be well-formed
    bad=0
    for t in ['a & b','x < y','q "r"']:
        src=f'[text](http://e.x/ \'{t}\') more\n'.encode()
        out=pt.hexout('data',5,0,src); p=expat.ParserCreate()
        try: p.Parse(out,True)
        except expat.ExpatError as e: bad+=1
    print('C08 fodt link-title ill-formed cases:',bad,'/3')
    # M3 (C05): engine reuse second conversion equals first
    src=b'para[^a] two[^b]\n\n[^a]: note a\n\n[^b]: note b\n'
    first=pt.hexout('convert',0,(1<<4),src); second=pt.hexout('engine2',0,(1<<4),src)
    print('C05 engine reuse second==fresh:',first==second)
    # M4' (C14): apostrophe round trip
    doc=b"# It's a title\n\nBody it's 'quoted'.\n"
    opml=pt.hexout('convert',9,0,doc); back=pt.hexout('opml2text',0,0,opml.rstrip(b'\n'))
    print('C14 html(doc)==html(reimport):', pt.hexout('convert',0,0,doc)==pt.hexout('convert',0,0,back), back[:40])
