#define _GNU_SOURCE
#include <stdio.h>
#include <string.h>
#include <stdlib.h>
#include <unistd.h>
#include <fcntl.h>
#include <sys/mman.h>
#include "libMultiMarkdown.h"
#include "d_string.h"
#include "token.h"
static const char*K[]={"text\n","    code\n","\tcode\n","* item\n","1. item\n","> quote\n","```\n","````\n","`````\n","```perl\n","a | b\n","--|--\n",": def\n","key: value\n","<div>\n","<span>x</span>\n","\n","***\n","===\n","---\n","# head\n","[a]: http://x\n","[^a]: note\n","[#a]: cite\n","[?a]: gloss\n","[>a]: abbr\n","{{TOC}}\n","<!--\n","-->\n","  text\n","+\n","|\n"};
#define NK (sizeof(K)/sizeof(K[0]))
int main(int argc,char**argv){
  int L=atoi(argv[1]); int shard=argc>2?atoi(argv[2]):0, nsh=argc>3?atoi(argv[3]):1;
  int fd=memfd_create("err",0); int saved=dup(2); if(!getenv("NOREDIR")) dup2(fd,2);
  short fmts[]={FORMAT_HTML,FORMAT_LATEX,FORMAT_BEAMER,FORMAT_MEMOIR,FORMAT_FODT,FORMAT_OPML,FORMAT_ITMZ};
  unsigned long exts[]={EXT_SMART|EXT_NOTES|EXT_CRITIC, EXT_COMPATIBILITY|EXT_NO_LABELS|EXT_OBFUSCATE|EXT_NO_METADATA};
  long total=1; for(int i=0;i<L;i++) total*=NK;
  long bad=0, n=0;
  char doc[4096];
  for(long idx=shard; idx<total; idx+=nsh){
    long v=idx; doc[0]=0; for(int i=0;i<L;i++){ strcat(doc,K[v%NK]); v/=NK; }
    for(int f=0;f<7;f++) for(int x=0;x<2;x++){
      token_pool_init();
      DString*d=mmd_string_convert_to_data(doc,exts[x],fmts[f],0,NULL);
      n++;
      off_t sz=lseek(fd,0,SEEK_CUR);
      if(sz>0){ char buf[300]; lseek(fd,0,SEEK_SET); int r=read(fd,buf,299); buf[r>0?r:0]=0; bad++; if(bad<15){ dprintf(saved,"BAD fmt=%d ext=%d doc=[",fmts[f],x); for(char*c=doc;*c;c++) dprintf(saved,*c=='\n'?"\\n":"%c",*c); dprintf(saved,"] err=%.120s\n",buf);} ftruncate(fd,0); lseek(fd,0,SEEK_SET);}      
      d_string_free(d,true);
      token_pool_drain();
    }
  }
  dprintf(saved,"L=%d docs=%ld conversions=%ld bad=%ld\n",L,total,n,bad);
  return 0;
}
