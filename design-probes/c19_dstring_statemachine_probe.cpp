#include <rapidcheck.h>
#include <rapidcheck/state.h>
#include <string>
#include <cstring>
extern "C" {
#include "d_string.h"
}
struct Model { std::string s; };
struct Sut { DString* d; Sut(){ d=d_string_new(""); } ~Sut(){ d_string_free(d,true);} };
static void inv(const Model&m, const Sut&u){
  RC_ASSERT(u.d->currentStringLength==m.s.size());
  RC_ASSERT(std::memcmp(u.d->str,m.s.data(),m.s.size())==0);
  RC_ASSERT(u.d->str[u.d->currentStringLength]==0);
  RC_ASSERT(u.d->currentStringBufferSize>u.d->currentStringLength);
}
static rc::Gen<size_t> posGen(size_t len){
  return rc::gen::oneOf(rc::gen::element<size_t>(0,1,len?len-1:0,len,len+1,2*len,(size_t)-1,(size_t)-2), rc::gen::resize(50,rc::gen::inRange<size_t>(0,len+2)));
}
static rc::Gen<std::string> payload(){
  return rc::gen::oneOf( rc::gen::container<std::string>(rc::gen::inRange<char>('a','z')),
     rc::gen::map(rc::gen::element<size_t>(1023,1024,1025,2047,2048,2049), [](size_t n){ return std::string(n,'x'); }));
}
using Cmd=rc::state::Command<Model,Sut>;
struct Append:Cmd{ std::string p=*payload(); void apply(Model&m)const override{ m.s+=p;} void run(const Model&m0,Sut&u)const override{ d_string_append(u.d,p.c_str()); Model m=m0; apply(m); inv(m,u);} void show(std::ostream&o)const override{ o<<"Append("<<p.size()<<")";}};
struct Insert:Cmd{ std::string p=*payload(); size_t pos; explicit Insert(const Model&m):pos(*posGen(m.s.size())){} void apply(Model&m)const override{ size_t q=pos>m.s.size()?m.s.size():pos; m.s.insert(q,p);} void run(const Model&m0,Sut&u)const override{ d_string_insert(u.d,pos,p.c_str()); Model m=m0; apply(m); inv(m,u);} void show(std::ostream&o)const override{ o<<"Insert("<<pos<<","<<p.size()<<")";}};
struct Erase:Cmd{ size_t pos,len; explicit Erase(const Model&m):pos(*posGen(m.s.size())),len(*posGen(m.s.size())){} void apply(Model&m)const override{ if(pos>m.s.size()||len==0) return; if(len==(size_t)-1 || len>=m.s.size()-pos) m.s.erase(pos); else m.s.erase(pos,len);} void run(const Model&m0,Sut&u)const override{ d_string_erase(u.d,pos,len); Model m=m0; apply(m); inv(m,u);} void show(std::ostream&o)const override{ o<<"Erase("<<pos<<","<<len<<")";}};
struct Copy:Cmd{ size_t pos,len; explicit Copy(const Model&m):pos(*posGen(m.s.size())),len(*posGen(m.s.size())){} void apply(Model&)const override{} void run(const Model&m,Sut&u)const override{ char*c=d_string_copy_substring(u.d,pos,len); size_t L=len; bool ok=true; if(L==(size_t)-1){ L= pos<=m.s.size()? m.s.size()-pos:0;} if(pos>m.s.size()|| L>m.s.size()-pos) ok=false; if(!ok){ RC_ASSERT(c==nullptr);} else { RC_ASSERT(c!=nullptr); RC_ASSERT(std::string(c)==m.s.substr(pos,L)); } free(c); inv(m,u);} void show(std::ostream&o)const override{ o<<"Copy("<<pos<<","<<len<<")";}};
int main(int argc,char**argv){
  bool nocopy=argc>1;
  bool ok=rc::check("dstring model",[&]{ Model m; Sut u; if(nocopy) rc::state::check(m,u,rc::state::gen::execOneOfWithArgs<Append,Insert,Erase>()); else rc::state::check(m,u,rc::state::gen::execOneOfWithArgs<Append,Insert,Erase,Copy>()); });
  return ok?0:1;
}
