import sys
from hypothesis import given, settings, strategies as st, seed, HealthCheck, assume
from ptlib import PT
pt=PT()
SAFE='ab c\n+-~=<>.\\'   # includes delimiter chars but never braces
ESC=['\\{','\\}','\\+','\\-','\\~','\\>','\\=']
unit=st.one_of(st.sampled_from(list('abc  \n+-~=<>.')), st.sampled_from(ESC))
def join_units(us):
    s=''
    for u in us:
        # avoid forming ~> across units, and lone backslash doesn't exist (only in ESC)
        if s.endswith('~') and u.startswith('>'): s+=' '
        s+=u
    return s
text=st.lists(unit,min_size=0,max_size=8).map(join_units)
def items(depth):
    leaf=st.one_of(text.map(lambda t:('T',t)), text.map(lambda t:('C',t)), st.tuples(text,text).map(lambda p:('S',p[0],p[1])))
    if depth==0: return st.lists(leaf,max_size=4)
    sub=items(depth-1)
    node=st.one_of(leaf, sub.map(lambda x:('A',x)), sub.map(lambda x:('D',x)), sub.map(lambda x:('H',x)))
    return st.lists(node,max_size=4)
def ser(its):
    out=''
    for it in its:
        k=it[0]
        if k=='T': piece=it[1]
        elif k=='C': piece='{>>'+it[1]+'<<}'
        elif k=='S': piece='{~~'+it[1]+'~>'+it[2]+'~~}'
        elif k=='A': piece='{++'+ser(it[1])+'++}'
        elif k=='D': piece='{--'+ser(it[1])+'--}'
        elif k=='H': piece='{=='+ser(it[1])+'==}'
        if out.endswith('~') and piece.startswith('>'): out+=' '
        out+=piece
    return out
def model(its,acc):
    out=''
    for it in its:
        k=it[0]
        if k=='T': piece=it[1]
        elif k=='C': piece=''
        elif k=='S': piece=it[2] if acc else it[1]
        elif k=='A': piece=model(it[1],acc) if acc else ''
        elif k=='D': piece='' if acc else model(it[1],acc)
        elif k=='H': piece=model(it[1],acc)
        # NOTE same separator logic as ser must be mirrored: we inserted ' ' in ser between pieces; mirror by tracking? handled below
        out+=piece
    return out
# To keep model exact, avoid the separator insertion: reject scripts where ser inserted a separator
def ser_strict(its):
    out=''
    for it in its:
        k=it[0]
        if k=='T': piece=it[1]
        elif k=='C': piece='{>>'+it[1]+'<<}'
        elif k=='S': piece='{~~'+it[1]+'~>'+it[2]+'~~}'
        elif k=='A': piece='{++'+ser_strict(it[1])+'++}'
        elif k=='D': piece='{--'+ser_strict(it[1])+'--}'
        elif k=='H': piece='{=='+ser_strict(it[1])+'==}'
        out+=piece
    return out
MARK=['{++','++}','{--','--}','{~~','~>','~~}','{==','==}','{>>','<<}']
stats={'n':0,'skip':0,'bad':0}
@settings(max_examples=int(sys.argv[1]),deadline=None,database=None,suppress_health_check=list(HealthCheck))
@seed(1)
@given(items(3))
def t(its):
    s=ser_strict(its)
    def cntS(x): return sum((1 if i[0]=='S' else 0)+(cntS(i[1]) if i[0] in 'ADH' else 0) for i in x)
    assume(s.count('~>')==cntS(its))
    stats['n']+=1
    for acc in (True,False):
        exp=model(its,acc)
        # skip if result text accidentally contains markers (plain text formed marker) -> domain violation
        got=pt.hexout('accept' if acc else 'reject',0,-1,s.encode())
        if got.decode()!=exp:
            stats['bad']+=1
            raise AssertionError(f"src={s!r} acc={acc} exp={exp!r} got={got.decode()!r}")
try:
    t()
finally:
    print(stats)
