#include <stdio.h>
#include <stdint.h>
#include <stdlib.h>
#include <string.h>
#include "libMultiMarkdown.h"
#include "d_string.h"
#include "token.h"
static uint64_t edges;
void __sanitizer_cov_trace_pc_guard_init(uint32_t*start,uint32_t*stop){ for(uint32_t*x=start;x<stop;x++) *x=1; }
void __sanitizer_cov_trace_pc_guard(uint32_t*g){ edges++; }
DString * scan_file(const char * fname);
int main(int argc,char**argv){
  short fm[]={FORMAT_HTML,FORMAT_LATEX,FORMAT_BEAMER,FORMAT_MEMOIR,FORMAT_FODT,FORMAT_OPML,FORMAT_ITMZ};
  const char*fn[]={"html","latex","beamer","memoir","fodt","opml","itmz"};
  unsigned long exts[]={EXT_SMART|EXT_NOTES|EXT_CRITIC, EXT_COMPATIBILITY|EXT_NO_LABELS|EXT_OBFUSCATE|EXT_NO_METADATA};
  token_pool_init();
  for(int a=1;a<argc;a++){
    DString*d=scan_file(argv[a]); if(!d) continue;
    for(int f=0;f<7;f++) for(int x=0;x<2;x++){
      uint64_t c[12]; int nk=0; size_t maxin=1<<21;
      for(int k=1;k<=512 && (size_t)k*(d->currentStringLength+2)<=maxin;k*=2){
        DString*s=d_string_new(""); for(int i=0;i<k;i++){ d_string_append(s,d->str); d_string_append(s,"\n\n"); }
        edges=0; token_pool_init();
        DString*r=mmd_string_convert_to_data(s->str,exts[x],fm[f],0,NULL);
        c[nk++]=edges; token_pool_drain(); d_string_free(r,true); d_string_free(s,true);
      }
      double r1=(double)c[nk-1]/c[nk-2], r2=(double)c[nk-2]/c[nk-3];
      if(r1>2.1||r2>2.1) printf("SUPERLINEAR %s %s ext%d rungs=%d ratios %.3f %.3f\n",strrchr(argv[a],'/')+1,fn[f],x,nk,r2,r1);
    }
    d_string_free(d,true);
  }
  printf("done\n");
  return 0;
}
