import subprocess,sys
N=int(sys.argv[1])
cases={
 'brackets': '['*N+'a'+']'*N,
 'brackets_sp': '[ '*N+'a'+' ]'*N,
 'parens': '('*N+'a'+')'*N,
 'emph': '*a '*N+'b'+' a*'*N,
 'strong_emph': '*a **a '*N+'b '+'a** a*'*N,
 'quote_dbl': '"a '*N+'b'+' a"'*N,
 'critic_add': '{++'*N+'a'+'++}'*N,
 'critic_hi': '{=='*N+'a'+'==}'*N,
 'critic_mixed': '{++{--'*N+'a'+'--}++}'*N,
 'math': '\\\\('*N+'a'+'\\\\)'*N,
 'angle': '<'*N+'a'+'>'*N,
 'braces': '{{'*N+'a'+'}}'*N,
 'image': '!['*N+'a'+']'*N,
 'footnote': '[^'*N+'a'+']'*N,
 'sup': '^a'*N,
 'blockquote': '> '*N+'a',
 'bq_lines': ''.join('>'*i+' a\n' for i in range(1,min(N,2000))),
 'list_indent': ''.join(' '*(4*i)+'* a\n' for i in range(min(N,3000))),
 'list_marker': '* '*N+'a',
 'enum_marker': '1. '*N+'a',
 'deflist': 'term\n'+': '*N+'a',
 'link_nest': '['*N+'a'+'](b)'*N,
 'backtick': ''.join('`'*i+' ' for i in range(1,min(N,1500))),
 'html': '<div>'*N+'a'+'</div>'*N,
 'brace_txt': '{'*N+'a'+'}'*N,
 'table_pipes': '|'.join('a'*1 for i in range(N))+'\n'+'|'.join('-' for i in range(N))+'\n',
}
fmts=sys.argv[2].split(',')
exe=sys.argv[3]
skip={'strong_emph','footnote','table_pipes','emph','quote_dbl','link_nest','image','critic_mixed'}
for name,doc in cases.items():
  if name in skip: continue
  for f in fmts:
    try:
      p=subprocess.run([exe,'-t',f],input=doc.encode(),capture_output=True,timeout=40)
      rc=p.returncode; 
      if rc!=0: print(name,f,'rc',rc,p.stderr[-300:])
    except subprocess.TimeoutExpired:
      print(name,f,'TIMEOUT')
print('done')
