import sys, random, re
import xml.parsers.expat as expat
from ptlib import PT
pt=PT()
rnd=random.Random(int(sys.argv[2]) if len(sys.argv)>2 else 1)
SM,NOTES,CRIT=(1<<3),(1<<4),(1<<9)
H=['&','<','>','"',"'",'&amp;','&#60;','<<','>>','{>>','<<}','{++','++}','{--','--}','{~~','~>','~~}','{==','==}','\\\\(','\\\\)','$','$$','<!--','-->','\\','é','中','😀',']]>','<![CDATA[','&x','&;','%','#']
def hw(): return ''.join(rnd.choice(H+['a','b',' ']) for _ in range(rnd.randint(1,5)))
def gen():
    b=[]
    if rnd.random()<0.6: b.append('Title: T '+hw()+'\nAuthor: '+hw()+'\n'+rnd.choice(['','my '+rnd.choice(['k','key2'])+': '+hw()+'\n']))
    for _ in range(rnd.randint(1,5)):
        r=rnd.random()
        if r<0.2: b.append('# H '+hw())
        elif r<0.4: b.append('para '+hw()+' `'+hw().replace('`','')+'` end')
        elif r<0.5: b.append('[link '+hw().replace(']','')+'](http://e.x/?a='+hw().replace(' ','').replace(')','')+' "'+hw().replace('"','')+'") x')
        elif r<0.6: b.append('![alt '+hw().replace(']','')+'](img'+hw().replace(' ','').replace(')','')+'.png "'+hw().replace('"','')+'")')
        elif r<0.7: b.append('```'+rnd.choice(['','py',hw().replace(' ','').replace('`','')])+'\ncode '+hw()+'\n```')
        elif r<0.8: b.append('| a | b |\n| --- | --- |\n| '+hw().replace('|','')+' | c |')
        elif r<0.9: b.append('foot[^'+'n'+'] and inline[^in '+hw().replace(']','')+'] x\n\n[^n]: note '+hw())
        else: b.append('* item '+hw()+'\n* two {++'+hw()+'++} {>>'+hw()+'<<}')
    return '\n\n'.join(b)+'\n'
bad=0;n=0;kinds={}
for it in range(int(sys.argv[1])):
    src=gen()
    for fmt,name in ((9,'opml'),(5,'fodt')):
        out=pt.hexout('data',fmt,SM|NOTES|CRIT,src.encode())
        n+=1
        p=expat.ParserCreate()
        try: p.Parse(out,True)
        except expat.ExpatError as e:
            bad+=1
            line=out.split(b'\n')[e.lineno-1]
            ctx=line[max(0,e.offset-40):e.offset+30]
            k=name+' '+str(e).split(':')[0]
            kinds.setdefault(k,[]).append((ctx,src))
print('n',n,'bad',bad)
for k,v in kinds.items():
    print(len(v),k)
    for ctx,src in v[:6]: print('    ',ctx)
