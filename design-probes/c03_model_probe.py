import sys, random, html as H
from ptlib import PT
pt=PT()
rnd=random.Random(int(sys.argv[2]) if len(sys.argv)>2 else 1)
WORDS=['alpha','bravo','charlie','delta','echo','foxtrot','golf','hotel','india','juliet','kilo','lima']
def words(n=None): return ' '.join(rnd.choice(WORDS) for _ in range(n or rnd.randint(1,4)))
# ---- inline AST
def gen_inlines(depth=2, allow_link=True):
    out=[]
    for _ in range(rnd.randint(1,4)):
        r=rnd.random()
        if r<0.45 or depth==0: out.append(('t',words()))
        elif r<0.6: out.append(('em',rnd.choice('*_'),[('t',words())]+[x for x in gen_inlines(depth-1,allow_link) if x[0] not in('em',)] ))
        elif r<0.75: out.append(('st',rnd.choice('*_'),[('t',words())]+[x for x in gen_inlines(depth-1,allow_link) if x[0] not in('st','em')]))
        elif r<0.85: out.append(('code',rnd.choice(['x','a b','a<b','x & y','"q"','f(x)'])))
        elif allow_link: out.append(('link',gen_inlines(depth-1,False),'http://example.com/'+rnd.choice(WORDS), rnd.choice([None,'Title here'])))
        else: out.append(('t',words()))
    # merge adjacent text, and separate everything by single spaces
    return out
def ser_inl(xs):
    parts=[]
    for x in xs:
        k=x[0]
        if k=='t': parts.append(x[1])
        elif k=='em': parts.append(x[1]+ser_inl(x[2])+x[1])
        elif k=='st': parts.append(x[1]*2+ser_inl(x[2])+x[1]*2)
        elif k=='code': parts.append('`'+x[1]+'`')
        elif k=='link': parts.append('['+ser_inl(x[1])+']('+x[2]+(' "'+x[3]+'"' if x[3] else '')+')')
    return ' '.join(parts)
def mod_inl(xs):
    parts=[]
    for x in xs:
        k=x[0]
        if k=='t': parts.append(x[1])
        elif k=='em': parts.append('<em>'+mod_inl(x[2])+'</em>')
        elif k=='st': parts.append('<strong>'+mod_inl(x[2])+'</strong>')
        elif k=='code': parts.append('<code>'+H.escape(x[1],quote=True).replace('&#x27;',"'")+'</code>')
        elif k=='link': parts.append('<a href="'+x[2]+'"'+(' title="'+x[3]+'"' if x[3] else '')+'>'+mod_inl(x[1])+'</a>')
    return ' '.join(parts)
def plain_inl(xs):
    parts=[]
    for x in xs:
        k=x[0]
        if k=='t': parts.append(x[1])
        elif k in('em','st'): parts.append(plain_inl(x[2]))
        elif k=='code': parts.append(x[1])
        elif k=='link': parts.append(plain_inl(x[1]))
    return ' '.join(parts)
def label(xs):
    # id from *source* text of heading: alnum . _ - : kept, lowercased
    s=ser_inl(xs)
    return ''.join(c.lower() for c in s if c.isalnum() or c in '._-:')
# ---- blocks
def gen_block(depth=2):
    r=rnd.random()
    if r<0.3: return ('para',[gen_inlines() for _ in range(rnd.randint(1,2))])
    if r<0.4: return ('atx',rnd.randint(1,6),gen_inlines(1),rnd.choice([True,False]))
    if r<0.47: return ('setext',rnd.choice([1,2]),gen_inlines(1))
    if r<0.52: return ('hr',rnd.choice(['***','* * *','---','- - -','___']))
    if r<0.6: return ('fence',rnd.choice([3,4,5]),rnd.choice([None,'python','c']),[rnd.choice(['code line','x = a < b && c','<tag>','*not em*']) for _ in range(rnd.randint(1,3))])
    if r<0.66: return ('icode',rnd.choice(['    ','\t']),[rnd.choice(['code line','x < y','a & b','*lit*']) for _ in range(rnd.randint(1,3))])
    if r<0.78 and depth>0: return ('quote',[gen_block(depth-1) for _ in range(rnd.randint(1,2))])
    if depth>0:
        kind=rnd.choice(['ul','ol']); loose=rnd.choice([True,False]); marker=rnd.choice('*+-')
        items=[]
        for _ in range(rnd.randint(1,3)):
            first=gen_inlines(1)
            rest=[]
            if rnd.random()<0.3: rest=[('para',[gen_inlines(1)])]
            items.append((first,rest))
        return ('list',kind,loose,marker,items)
    return ('para',[gen_inlines()])
def fix_seq(bs):
    out=[]
    for b in bs:
        if out and out[-1][0]=='icode' and b[0]=='icode': continue
        if out and out[-1][0]=='list' and b[0] in('list','icode'): continue
        out.append(b)
    return out
def ser_block(b):
    k=b[0]
    if k=='para': return '\n'.join(ser_inl(l) for l in b[1])
    if k=='atx': return '#'*b[1]+' '+ser_inl(b[2])+(' '+'#'*b[1] if b[3] else '')
    if k=='setext': return ser_inl(b[2])+'\n'+('=' if b[1]==1 else '-')*5
    if k=='hr': return b[1]
    if k=='fence': return '`'*b[1]+(b[2] or '')+'\n'+'\n'.join(b[3])+'\n'+'`'*b[1]
    if k=='icode': return '\n'.join(b[1]+l for l in b[2])
    if k=='quote': return '\n'.join(('>'+l if (l.startswith('    ') or l.startswith('\t')) else '> '+l) if l else '>' for l in ser_blocks(b[1]).split('\n'))
    if k=='list':
        lines=[]
        for i,(first,rest) in enumerate(b[4]):
            mk=(b[3] if b[1]=='ul' else f'{i+1}.')
            item=mk+' '+ser_inl(first)
            for rb in rest:
                item+='\n\n'+'\n'.join(('    '+l if l else '') for l in ser_block(rb).split('\n'))
            lines.append(item)
        return ('\n\n' if b[2] else '\n').join(lines)
def ser_blocks(bs): return '\n\n'.join(ser_block(b) for b in bs)
def esc(s): return s.replace('&','&amp;').replace('<','&lt;').replace('>','&gt;').replace('"','&quot;')
def mod_block(b,tight=False):
    k=b[0]
    if k=='para':
        inner='\n'.join(mod_inl(l) for l in b[1])
        return inner if tight else '<p>'+inner+'</p>'
    if k=='atx': return f'<h{b[1]} id="{label(b[2])}">'+mod_inl(b[2])+f'</h{b[1]}>'
    if k=='setext': return f'<h{b[1]} id="{label(b[2])}">'+mod_inl(b[2])+f'</h{b[1]}>'
    if k=='hr': return '<hr />'
    if k=='fence': return '<pre><code'+(f' class="{b[2]}"' if b[2] else '')+'>'+''.join(esc(l)+'\n' for l in b[3])+'</code></pre>'
    if k=='icode': return '<pre><code>'+'\n'.join(esc(l) for l in b[2])+'\n</code></pre>' 
    if k=='quote': return '<blockquote>\n'+mod_blocks(b[1])+'\n</blockquote>'
    if k=='list':
        tag='ul' if b[1]=='ul' else 'ol'
        items=b[4]
        # loose if items separated by blank lines (b[2]) and more than one item, or any item has rest
        loose = (b[2] and len(items)>1) or any(r for _,r in items)
        out=[]
        for first,rest in items:
            if loose: s='<li><p>'+mod_inl(first)+'</p>'
            else: s='<li>'+mod_inl(first)
            for rb in rest: s+='\n\n'+mod_block(rb)
            out.append(s+'</li>')
        return f'<{tag}>\n'+'\n'.join(out)+f'\n</{tag}>'
def mod_blocks(bs): return '\n\n'.join(mod_block(b) for b in bs)
bad=0;n=0;cls={}
for it in range(int(sys.argv[1])):
    bs=fix_seq([gen_block() for _ in range(rnd.randint(1,4))])
    src=ser_blocks(bs)+'\n'
    exp=mod_blocks(bs)+'\n'
    got=pt.hexout('convert',0,0,src.encode()).decode()
    n+=1
    if got!=exp:
        bad+=1
        key=tuple(sorted(set(b[0] for b in bs)))
        cls[key]=cls.get(key,0)+1
        if bad<=int(sys.argv[3]) if len(sys.argv)>3 else bad<=3: print('---- SRC\n'+src+'---- EXP\n'+exp+'---- GOT\n'+got)
print('n',n,'bad',bad); 
for k,v in sorted(cls.items(),key=lambda x:-x[1])[:15]: print(v,k)
