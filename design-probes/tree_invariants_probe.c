#define _GNU_SOURCE
#include <stdio.h>
#include <string.h>
#include <stdlib.h>
#include "libMultiMarkdown.h"
#include "d_string.h"
#include "token.h"
static size_t srclen; static long nviol=0; static const char*curfile; static const char*phase;
static long count=0;
static void viol(const char*what, token*t){ nviol++; if(nviol<40) fprintf(stderr,"VIOL %s [%s] %s: type=%d start=%zu len=%zu\n",curfile,phase,what,t->type,t->start,t->len); }
static void check_chain(token*first, token*parent, int depth){
  token*prev=NULL; size_t laststart=0;
  for(token*t=first;t;t=t->next){
    count++;
    if(count>5000000){ viol("cycle?",t); return; }
    if(t->prev!=prev) viol("prev-mismatch",t);
    if(t->start>srclen || t->len>srclen || t->start+t->len>srclen) viol("span-outside-source",t);
    if(prev && t->start<laststart) viol("order",t);
    if(parent && (t->start<parent->start || t->start+t->len>parent->start+parent->len)) viol("child-outside-parent",t);
    if(t->mate && t->mate->mate!=t) viol("mate-asym",t);
    laststart=t->start; prev=t;
    if(t->child) check_chain(t->child,t,depth+1);
  }
}
int main(int argc,char**argv){
  token_pool_init();
  unsigned long exts[]={EXT_SMART|EXT_NOTES|EXT_CRITIC, EXT_COMPATIBILITY|EXT_NO_LABELS|EXT_OBFUSCATE|EXT_NO_METADATA, 0, EXT_NOTES|EXT_CRITIC|EXT_CRITIC_ACCEPT, EXT_SMART|EXT_NOTES|EXT_CRITIC|EXT_COMPLETE};
  short fmts[]={FORMAT_HTML,FORMAT_LATEX,FORMAT_FODT,FORMAT_OPML,FORMAT_BEAMER,FORMAT_MEMOIR,FORMAT_ITMZ};
  for(int i=1;i<argc;i++){
    curfile=argv[i];
    DString*src=scan_file(argv[i]); if(!src) continue;
    for(int x=0;x<5;x++){
      for(int f=-1;f<7;f++){
      mmd_engine*e=mmd_engine_create_with_string(src->str,exts[x]);
      mmd_engine_parse_string(e);
      token*root=mmd_engine_root(e); srclen=strlen(src->str);
      phase="parse"; count=0;
      if(f==-1){
      if(!root) { fprintf(stderr,"%s: NULL root\n",curfile); }
      else { if(root->start!=0||root->len!=srclen) viol("root-span",root); if(root->next||root->prev) viol("root-sibling",root); check_chain(root,NULL,0);} }
      else {
        DString*out=d_string_new(""); mmd_engine_export_token_tree(out,e,fmts[f]); d_string_free(out,true);
        static char ph[32]; sprintf(ph,"after-export-%d-ext%d",fmts[f],x); phase=ph; count=0;
        root=mmd_engine_root(e); if(root) check_chain(root,NULL,0);
      }
      mmd_engine_free(e,true);
      }
    }
    d_string_free(src,true);
  }
  fprintf(stderr,"files=%d violations=%ld\n",argc-1,nviol);
  token_pool_drain(); token_pool_free();
  return 0;
}
