#include <fuzzer/FuzzedDataProvider.h>
#include <string>
#include <cstdlib>
#include <csetjmp>
#include <unistd.h>
extern "C" {
#include "libMultiMarkdown.h"
#include "d_string.h"
#include "token.h"
void ran_start(long seed);
}
static jmp_buf jb; static int in_case=0; static long exits=0;
extern "C" void __real_exit(int);
extern "C" void __wrap_exit(int c){ if(in_case){ exits++; longjmp(jb,1);} __real_exit(c); }
extern "C" int LLVMFuzzerTestOneInput(const uint8_t *data, size_t size) {
  if(size<6) return 0;
  FuzzedDataProvider fdp(data,size);
  int fmt=fdp.ConsumeIntegralInRange<int>(0,12);
  unsigned long ext=fdp.ConsumeIntegral<uint32_t>() & 0x1FFFF & ~((1<<13)|(1<<14)|(1<<15));
  int lang=fdp.ConsumeIntegralInRange<int>(0,6);
  std::string doc=fdp.ConsumeRemainingBytesAsString();
  size_t z=doc.find('\0'); if(z!=std::string::npos) doc.resize(z);
  ran_start(310952L); srand(1);
  in_case=1;
  if(!setjmp(jb)){
    DString*r=mmd_string_convert_to_data(doc.c_str(),ext,fmt,lang,NULL); if(r) d_string_free(r,true);
  }
  in_case=0;
  return 0;
}
