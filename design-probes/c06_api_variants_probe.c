#include <stdio.h>
#include <string.h>
#include <stdlib.h>
#include <unistd.h>
#include "libMultiMarkdown.h"
#include "d_string.h"
#include "token.h"
DString * scan_file(const char * fname);
static char* slurp(const char*p,size_t*n){ FILE*f=fopen(p,"rb"); if(!f){*n=0;return NULL;} fseek(f,0,SEEK_END); long l=ftell(f); fseek(f,0,SEEK_SET); char*b=malloc(l+1); fread(b,1,l,f); b[l]=0; fclose(f); *n=l; return b; }
static int same(const char*a,size_t an,const char*b,size_t bn){ return a&&b&&an==bn&&memcmp(a,b,an)==0; }
int main(int argc,char**argv){
  token_pool_init();
  short fmts[]={FORMAT_HTML,FORMAT_LATEX,FORMAT_BEAMER,FORMAT_MEMOIR,FORMAT_OPML,FORMAT_FODT,FORMAT_MMD};
  const char*fn[]={"html","latex","beamer","memoir","opml","fodt","mmd"};
  unsigned long exts[]={EXT_SMART|EXT_NOTES|EXT_CRITIC, EXT_COMPATIBILITY|EXT_NO_LABELS|EXT_NO_METADATA, EXT_SMART|EXT_NOTES|EXT_CRITIC|EXT_COMPLETE};
  for(int i=1;i<argc;i++){
    DString*src=scan_file(argv[i]); if(!src) continue;
    for(int f=0;f<7;f++) for(int x=0;x<3;x++) for(int lang=0;lang<7;lang+=3){
      short F=fmts[f]; unsigned long E=exts[x];
      char*a=mmd_string_convert(src->str,E,F,lang);
      DString*d1=d_string_new(src->str); char*b=mmd_d_string_convert(d1,E,F,lang);
      mmd_engine*e=mmd_engine_create_with_string(src->str,E); mmd_engine_set_language(e,lang); char*c=mmd_engine_convert(e,F);
      DString*da=mmd_string_convert_to_data(src->str,E,F,lang,NULL);
      DString*d2=d_string_new(src->str); DString*db=mmd_d_string_convert_to_data(d2,E,F,lang,NULL);
      mmd_engine*e2=mmd_engine_create_with_string(src->str,E); mmd_engine_set_language(e2,lang); DString*dc=mmd_engine_convert_to_data(e2,F,NULL);
      unlink("/tmp/x/o1"); unlink("/tmp/x/o2"); unlink("/tmp/x/o3");
      mmd_string_convert_to_file(src->str,E,F,lang,NULL,"/tmp/x/o1");
      DString*d3=d_string_new(src->str); mmd_d_string_convert_to_file(d3,E,F,lang,NULL,"/tmp/x/o2");
      mmd_engine*e3=mmd_engine_create_with_string(src->str,E); mmd_engine_set_language(e3,lang); mmd_engine_convert_to_file(e3,F,NULL,"/tmp/x/o3");
      size_t n1,n2,n3; char*f1=slurp("/tmp/x/o1",&n1),*f2=slurp("/tmp/x/o2",&n2),*f3=slurp("/tmp/x/o3",&n3);
      size_t an=strlen(a);
      char res[200]=""; 
      if(!same(a,an,b,strlen(b))) strcat(res," str!=dstr");
      if(!same(a,an,c,strlen(c))) strcat(res," str!=engine");
      if(!same(a,an,da->str,da->currentStringLength)) strcat(res," convert!=to_data");
      if(!same(da->str,da->currentStringLength,db->str,db->currentStringLength)) strcat(res," data:str!=dstr");
      if(!same(da->str,da->currentStringLength,dc->str,dc->currentStringLength)) strcat(res," data:str!=engine");
      if(!f1) strcat(res," file(str):none"); else if(!same(da->str,da->currentStringLength,f1,n1)) strcat(res," file(str)!=data");
      if(!f2) strcat(res," file(dstr):none"); else if(!same(da->str,da->currentStringLength,f2,n2)) strcat(res," file(dstr)!=data");
      if(!f3) strcat(res," file(eng):none"); else if(!same(da->str,da->currentStringLength,f3,n3)) strcat(res," file(eng)!=data");
      if(strcmp(d1->str,src->str)||strcmp(d2->str,src->str)||strcmp(d3->str,src->str)) strcat(res," SOURCE-MODIFIED");
      if(res[0]) printf("%s fmt=%s ext=%d lang=%d:%s\n",strrchr(argv[i],'/')+1,fn[f],x,lang,res);
      free(a);free(b);free(c);free(f1);free(f2);free(f3);
    }
  }
  return 0;
}
