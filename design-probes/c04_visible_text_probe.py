import re, html, sys, random
import xml.parsers.expat as expat
from ptlib import PT
pt=PT()
rnd=random.Random(int(sys.argv[2]) if len(sys.argv)>2 else 1)
EXT=(1<<4)|(1<<9)  # notes critic ; smart off for exactness first
FM={'html':0,'latex':2,'beamer':3,'memoir':4,'fodt':5,'opml':9}
RES='&<>"\\{}$%#_^~'
def spell(ch): return ch if ch in '&<>"%#' else '\\'+ch
class Doc:
    def __init__(s): s.w=0; s.q=0; s.slots={}; s.v=0; s.verb={}
    def W(s): s.w+=1; return f"w{s.w:06d}"
    def Q(s,slot):
        ch=rnd.choice(RES); s.q+=1; k=s.q; s.slots[k]=(ch,slot); return f"q{k}a{spell(ch)}b{k}q"
    def V(s,kind):
        s.v+=1; k=s.v
        payload=''.join(rnd.choice('ab <>&"\'%$#_{}~^*[]()!+-=|:;,.?/@') for _ in range(rnd.randint(1,10))).strip()
        payload=payload.replace('`','') or 'x'
        s.verb[k]=(payload,kind); return f"vS{k}z {payload} vE{k}z"
def gen():
    d=Doc(); blocks=[]
    def inl(slot):
        parts=[d.W()]
        for _ in range(rnd.randint(0,3)):
            r=rnd.random()
            if r<0.4: parts.append(d.Q(slot))
            elif r<0.55: parts.append('*'+d.W()+' '+d.Q(slot+'/em')+'*')
            elif r<0.65: parts.append('`'+d.V('span')+'`')
            elif r<0.75: parts.append('['+d.W()+' '+d.Q(slot+'/linktext')+'](http://e.x/u%d)'%d.w)
            parts.append(d.W())
        return ' '.join(parts)
    for _ in range(rnd.randint(2,6)):
        r=rnd.random()
        if r<0.3: blocks.append(inl('para'))
        elif r<0.4: blocks.append('#'*rnd.randint(1,3)+' '+inl('heading'))
        elif r<0.5: blocks.append('\n'.join('* '+inl('item') for _ in range(rnd.randint(1,3))))
        elif r<0.6: blocks.append('> '+inl('quote'))
        elif r<0.7: blocks.append('| '+d.W()+' | '+d.W()+' |\n| --- | --- |\n| '+inl('cell')+' | '+d.W()+' |')
        elif r<0.8: blocks.append('```\n'+d.V('block')+'\n```')
        elif r<0.9:
            n=d.w; blocks.append(d.W()+' [^n%d] '%n+d.W()); blocks.append('[^n%d]: '%n+inl('footnote'))
        else: blocks.append('    '+d.V('iblock'))
    return '\n\n'.join(blocks)+'\n', d
def xml_text(out,wrap):
    data=('<root>'+out.replace('&nbsp;','&#160;')+'</root>') if wrap else out
    chunks=[]
    p=expat.ParserCreate()
    def cd(s): chunks.append(s)
    def se(name,attrs):
        for k in ('alt','title','text','_note'):
            if k in attrs: chunks.append(' '+attrs[k]+' ')
        if name in('text:s',): chunks.append(' '*int(attrs.get('text:c','1')))
        if name=='text:tab': chunks.append('\t')
        if name=='text:line-break': chunks.append('\n')
    p.CharacterDataHandler=cd; p.StartElementHandler=se
    p.Parse(data,True)
    return ''.join(chunks)
def latex_visible(out):
    out=re.sub(r'\\label\{[^}]*\}','',out); out=re.sub(r'\\autoref\{[^}]*\}','',out)
    out=re.sub(r'\\href\{[^}]*\}','',out)
    return out
def un_latex(s):
    reps=[('\\textbackslash{}','\\'),('\\ensuremath{\\sim}','~'),('\\^{}','^'),('$<$','<'),('$>$','>'),('\\&','&'),('\\%','%'),('\\#','#'),('\\_','_'),('\\{','{'),('\\}','}'),('\\$','$'),('\\textbar{}','|'),('\\slash{}','/')]
    out='';i=0
    while i<len(s):
        for a,b in reps:
            if s.startswith(a,i): out+=b;i+=len(a);break
        else: out+=s[i]; i+=1
    return out
stats={}
def note(k,ex=None):
    stats.setdefault(k,[]).append(ex)
N=int(sys.argv[1])
for it in range(N):
    src,d=gen()
    srcwords=re.findall(r'w\d{6}',src)
    for name,f in FM.items():
        raw=pt.hexout('data',f,EXT,src.encode()).decode('utf-8','replace')
        try:
            if name in('html',): vis=xml_text(raw,True)
            elif name in('fodt','opml'): vis=xml_text(raw,False)
            else: vis=latex_visible(raw)
        except expat.ExpatError as e:
            note(name+' XML parse error',src); continue
        words=re.findall(r'w\d{6}',vis)
        if name=='html':
            # notes relocated: compare as multiset + order of non-note words
            if sorted(words)!=sorted(srcwords): note(name+' words multiset differs',(src,words))
        elif name=='opml':
            if words!=srcwords: note(name+' words order',src)
        else:
            if words!=srcwords and sorted(words)!=sorted(srcwords): note(name+' words multiset differs',(src,[w for w in srcwords if w not in words],[w for w in words if words.count(w)>1][:3]))
        for k,(ch,slot) in d.slots.items():
            m=re.search(f"q{k}a(.*?)b{k}q",vis,re.S)
            if not m: note(f'{name} slot missing [{slot}]',src); continue
            mid=m.group(1)
            if name in('html','fodt'): ok=(mid==ch)     # after XML parse, text is already unescaped
            elif name=='opml': ok=(mid==spell(ch))
            else: ok=(un_latex(mid)==ch and not (mid==ch and ch in '\\{}$%&#_^~'))
            if not ok: note(f'{name} bad escape ch={ch} slot={slot.split("/")[-1]} got={mid!r}',src)
        for k,(payload,kind) in d.verb.items():
            m=re.search(f"vS{k}z (.*?) vE{k}z",vis,re.S)
            if not m: note(f'{name} verbatim missing [{kind}]',(src,payload)); continue
            mid=m.group(1)
            if name in('html','fodt','opml'): ok=(mid==payload)
            else: ok=(mid==payload) if kind!='span' else (un_latex(mid)==payload)
            if not ok: note(f'{name} verbatim differs [{kind}]',(payload,mid))
print('docs',N)
for k,v in sorted(stats.items(),key=lambda x:-len(x[1])): print(len(v),k, '   e.g.', repr(v[0])[:160] if 'verbatim differs' in k or 'multiset' in k else '')
