import sys,subprocess
exec(open('c03.py').read().split("bad=0;n=0;cls={}")[0])
import difflib
bad=0;n=0;shown=0
maxshow=int(sys.argv[3]); want=set(sys.argv[4].split(',')) if len(sys.argv)>4 else None
for it in range(int(sys.argv[1])):
    bs=fix_seq([gen_block() for _ in range(rnd.randint(1,2))])
    src=ser_blocks(bs)+'\n'; exp=mod_blocks(bs)+'\n'
    got=pt.hexout('convert',0,0,src.encode()).decode(); n+=1
    if got!=exp:
        bad+=1
        kinds=set(b[0] for b in bs)
        if (want is None or kinds<=want) and shown<maxshow and len(src)<400:
            shown+=1
            print('==== SRC'); print(src,end=''); print('---- DIFF (exp vs got)')
            for l in difflib.unified_diff(exp.split('\n'),got.split('\n'),lineterm='',n=1): print(l)
print('n',n,'bad',bad)
