"""Build variants of libMultiMarkdown and harness binaries from /repo's *current working tree*.

Everything lands in /verif/.cache/<srckey>/<variant>/ where srckey is a hash over every file that can
influence the compiled library, so an edited tree always yields a fresh build and an unchanged tree is
reused.  Nothing here depends on /repo/_build or on cmake.
"""
import concurrent.futures as cf
import fcntl
import hashlib
import os
import re
import shutil
import subprocess
import sys
import time

VERIF = os.path.dirname(os.path.dirname(os.path.abspath(__file__)))
REPO = os.environ.get('VERIF_REPO', '/repo')
CACHE = os.path.join(VERIF, '.cache')
GUARD = 'MMD6_VERIF'

EXCLUDE = {'main.c', 'argtable3.c', 'char_lookup.c'}
# vendored third-party code with deliberate unaligned loads / memcpy(NULL,0): ASan yes, UBSan no
NO_UBSAN = {'miniz.c'}
# vendored compression is not instrumented for the C07 cost meter
NO_COV = {'miniz.c'}

SAN = ['-fsanitize=address,undefined', '-fno-sanitize-recover=undefined']
SAN_NOUB = ['-fsanitize=address']

VARIANTS = {
    'asan':        dict(cflags=SAN, nopool=False),
    'asan-nopool': dict(cflags=SAN, nopool=True),
    'fuzz':        dict(cflags=SAN + ['-fsanitize=fuzzer-no-link'], nopool=False),
    'fuzz-nopool': dict(cflags=SAN + ['-fsanitize=fuzzer-no-link'], nopool=True),
    'plain':       dict(cflags=[], nopool=False),
    'plain-O0':    dict(cflags=['-O0'], nopool=False),      # the project's own CMake build sets no optimisation level: largest stack frames
    'cov':         dict(cflags=['-fsanitize-coverage=trace-pc-guard'], nopool=False),
    'tsan-nopool': dict(cflags=['-fsanitize=thread'], nopool=True),
}
BASE = ['-g', '-O1', '-fno-omit-frame-pointer', '-D' + GUARD, '-w']


def _sha(*chunks):
    h = hashlib.sha256()
    for c in chunks:
        h.update(c if isinstance(c, bytes) else c.encode())
        h.update(b'\0')
    return h.hexdigest()


def src_files():
    d = os.path.join(REPO, 'src')
    return sorted(f for f in os.listdir(d) if f.endswith(('.c', '.h')))


def src_key():
    h = hashlib.sha256()
    d = os.path.join(REPO, 'src')
    for f in src_files():
        h.update(f.encode() + b'\0')
        with open(os.path.join(d, f), 'rb') as fh:
            h.update(fh.read())
        h.update(b'\0')
    with open(os.path.join(REPO, 'CMakeLists.txt'), 'rb') as fh:
        h.update(fh.read())
    h.update(repr(sorted((k, v['cflags'], v['nopool']) for k, v in VARIANTS.items())).encode())
    h.update(repr(BASE).encode())
    return h.hexdigest()[:16]


def key_dir():
    return os.path.join(CACHE, src_key())


def _version_h(dst):
    txt = open(os.path.join(REPO, 'CMakeLists.txt'), encoding='utf-8', errors='replace').read()
    def g(name, default):
        m = re.search(r'set\s*\(\s*My_Project_Version_%s\s+(\d+)' % name, txt)
        return m.group(1) if m else default
    ver = '%s.%s.%s' % (g('Major', '6'), g('Minor', '0'), g('Patch', '0'))
    with open(dst, 'w') as fh:
        fh.write('#ifndef FILE_LIBMULTIMARKDOWN_H\n#define FILE_LIBMULTIMARKDOWN_H\n'
                 '#define LIBMULTIMARKDOWN_NAME "MultiMarkdown"\n'
                 '#define LIBMULTIMARKDOWN_VERSION "%s"\n'
                 '#define LIBMULTIMARKDOWN_COPYRIGHT "Copyright (c) Fletcher T. Penney."\n'
                 '#define LIBMULTIMARKDOWN_LICENSE "\\tMIT License (verification build)\\n"\n'
                 '#endif\n' % ver)


def _run(cmd, what):
    p = subprocess.run(cmd, stdout=subprocess.PIPE, stderr=subprocess.STDOUT)
    if p.returncode != 0:
        sys.stderr.write('BUILD FAILED (%s): %s\n%s\n' % (what, ' '.join(cmd), p.stdout.decode(errors='replace')[-4000:]))
        raise SystemExit(3)


class _Lock:
    def __init__(self, path):
        self.path = path
    def __enter__(self):
        os.makedirs(os.path.dirname(self.path), exist_ok=True)
        self.fh = open(self.path, 'w')
        fcntl.flock(self.fh, fcntl.LOCK_EX)
    def __exit__(self, *a):
        fcntl.flock(self.fh, fcntl.LOCK_UN)
        self.fh.close()


def prune(keep=6):
    """Bound disk use: keep the `keep` most recently used source keys."""
    if not os.path.isdir(CACHE):
        return
    cur = src_key()
    ds = [d for d in os.listdir(CACHE) if re.fullmatch(r'[0-9a-f]{16}', d)]
    ds.sort(key=lambda d: os.path.getmtime(os.path.join(CACHE, d)), reverse=True)
    import time
    for d in ds[keep:]:
        # (a key used within the last two hours may belong to a check that is still running elsewhere)
        if d != cur and time.time() - os.path.getmtime(os.path.join(CACHE, d)) > 7200:
            shutil.rmtree(os.path.join(CACHE, d), ignore_errors=True)


def variant_flags(variant, fname=None):
    v = VARIANTS[variant]
    fl = list(BASE)
    for f in v['cflags']:
        if fname in NO_UBSAN and f.startswith('-fsanitize=address,undefined'):
            fl.append('-fsanitize=address')
        elif fname in NO_UBSAN and f.startswith('-fno-sanitize-recover'):
            continue
        elif fname in NO_COV and f.startswith('-fsanitize-coverage'):
            continue
        else:
            fl.append(f)
    if v['nopool']:
        fl.append('-DDISABLE_OBJECT_POOL')
    return fl


def lib(variant, jobs=None):
    """Build (or reuse) the library for `variant`; returns the variant directory."""
    vdir = os.path.join(key_dir(), variant)
    stamp = os.path.join(vdir, 'libmmd.a.ok')
    if os.path.exists(stamp):
        os.utime(key_dir())
        return vdir
    with _Lock(os.path.join(key_dir(), variant + '.lock')):
        if os.path.exists(stamp):
            return vdir
        os.makedirs(os.path.join(vdir, 'obj'), exist_ok=True)
        os.makedirs(os.path.join(vdir, 'gen'), exist_ok=True)
        _version_h(os.path.join(vdir, 'gen', 'version.h'))
        srcd = os.path.join(REPO, 'src')
        cs = [f for f in src_files() if f.endswith('.c') and f not in EXCLUDE]
        # biggest first so the long pole starts early
        cs.sort(key=lambda f: -os.path.getsize(os.path.join(srcd, f)))
        def comp(f):
            o = os.path.join(vdir, 'obj', f[:-2] + '.o')
            _run(['clang'] + variant_flags(variant, f) + ['-I', srcd, '-I', os.path.join(vdir, 'gen'),
                  '-c', os.path.join(srcd, f), '-o', o], variant + ':' + f)
            return o
        with cf.ThreadPoolExecutor(jobs or os.cpu_count() or 4) as ex:
            objs = list(ex.map(comp, cs))
        a = os.path.join(vdir, 'libmmd.a')
        if os.path.exists(a):
            os.unlink(a)
        _run(['ar', 'rcs', a] + objs, variant + ':ar')
        if variant in ('plain', 'plain-O0', 'asan'):
            _run(['clang'] + variant_flags(variant) + ['-I', srcd, '-I', os.path.join(vdir, 'gen'),
                  os.path.join(srcd, 'main.c'), os.path.join(srcd, 'argtable3.c'), a, '-lm',
                  '-o', os.path.join(vdir, 'multimarkdown')], variant + ':cli')
        open(stamp, 'w').close()
    prune()
    return vdir


def harness(name, variant, sources, extra=(), cxx=None, libs=()):
    """Compile harness `sources` (paths relative to /verif/harness) against `variant`."""
    vdir = lib(variant)
    hdir = os.path.join(VERIF, 'harness')
    paths = [s if os.path.isabs(s) else os.path.join(hdir, s) for s in sources]
    if cxx is None:
        cxx = any(p.endswith(('.cpp', '.cc')) for p in paths)
    content = [open(p, 'rb').read() for p in paths]
    # headers of the harness dir take part in the key
    for f in sorted(os.listdir(hdir)):
        if f.endswith(('.h', '.hpp')):
            content.append(open(os.path.join(hdir, f), 'rb').read())
    hk = _sha(*(content + [repr(list(extra)), repr(list(libs)), variant]))[:12]
    out = os.path.join(vdir, 'bin', '%s-%s' % (name, hk))
    if os.path.exists(out):
        return out
    with _Lock(os.path.join(vdir, 'bin', name + '.lock')):
        if os.path.exists(out):
            return out
        # drop older builds of the same harness
        for f in os.listdir(os.path.join(vdir, 'bin')):
            if f.startswith(name + '-') and not f.endswith('.lock'):
                try:
                    os.unlink(os.path.join(vdir, 'bin', f))
                except OSError:
                    pass
        cc = 'clang++' if cxx else 'clang'
        fl = variant_flags(variant)
        if cxx:
            fl = fl + ['-std=gnu++17']
        tmp = out + '.tmp%d' % os.getpid()
        _run([cc] + fl + list(extra) + ['-I', os.path.join(REPO, 'src'), '-I', os.path.join(vdir, 'gen'), '-I', hdir]
             + paths + [os.path.join(vdir, 'libmmd.a')] + list(libs) + ['-lm', '-o', tmp], name)
        os.rename(tmp, out)
    return out


def cli(variant='plain'):
    return os.path.join(lib(variant), 'multimarkdown')


def build_all(variants=None):
    variants = variants or list(VARIANTS)
    t = time.time()
    # two variants at a time, each with 8 compile jobs
    with cf.ThreadPoolExecutor(4) as ex:
        list(ex.map(lambda v: lib(v, jobs=6), variants))
    return time.time() - t


if __name__ == '__main__':
    vs = sys.argv[1:] or list(VARIANTS)
    dt = build_all(vs)
    print('built %s in %.1fs under %s' % (','.join(vs), dt, key_dir()))
