"""Shared driver-side helpers: tier/seed/budget, evidence, known findings, violations, shard runner."""
import hashlib
import json
import multiprocessing as mp
import os
import shutil
import sys
import time
import traceback

VERIF = os.path.dirname(os.path.dirname(os.path.abspath(__file__)))
EVID = os.environ.get('VERIF_EVIDENCE_DIR') or os.path.join(VERIF, 'evidence')      # override only for experiments (seeded-change runs)
REPLAYS = os.path.join(VERIF, 'replays')
SEEDS = os.path.join(VERIF, 'seeds')
NCPU = int(os.environ.get('VERIF_JOBS', os.cpu_count() or 4))


def seed():
    try:
        return int(os.environ.get('VERIF_SEED', '1'))
    except ValueError:
        return 1


def tier(default='quick'):
    t = os.environ.get('VERIF_TIER', default)
    return t if t in ('quick', 'thorough') else default


def budget_scale():
    try:
        return float(os.environ.get('VERIF_BUDGET_SCALE', '1'))
    except ValueError:
        return 1.0


def sha(b):
    if isinstance(b, str):
        b = b.encode('utf-8', 'surrogateescape')
    return hashlib.sha1(b).hexdigest()[:16]


def scratch_dir(tag):
    d = os.path.join(VERIF, '.cache', 'run-%s-%d' % (tag, os.getpid()))
    shutil.rmtree(d, ignore_errors=True)
    os.makedirs(d)
    return d


def trunc(x, n=400):
    if isinstance(x, bytes):
        x = x.decode('utf-8', 'replace')
    if isinstance(x, str):
        return x if len(x) <= n else x[:n] + '…[%d more]' % (len(x) - n)
    return x


class Known:
    """Committed list of known / fixed findings.  Never written at run time."""
    def __init__(self):
        p = os.path.join(VERIF, 'known_findings.json')
        self.items = json.load(open(p)) if os.path.exists(p) else []

    def known(self, prop):
        return [k for k in self.items if k['property'] == prop and k['status'] == 'known']

    def match(self, prop, signature):
        for k in self.known(prop):
            if k['signature'] == signature:
                return k
        return None


class Evidence:
    def __init__(self, prop, tier_, level='exploration'):
        self.prop = prop
        self.tier = tier_
        self.level = level
        self.t0 = time.time()
        self.evaluations = 0
        self.nontrivial = set()
        self.nontrivial_extra = 0      # counted inside a harness that keeps its own distinct set
        self.samples = []
        self.classes = {}
        self.rule = ''
        self.assumptions = []
        self.extra = {}
        self.violations = 0
        self.known_hit = []
        self.inconclusive = []

    def add_class(self, k, n=1):
        self.classes[k] = self.classes.get(k, 0) + n

    def merge_classes(self, d):
        for k, v in d.items():
            self.add_class(k, v)

    def sample(self, s, limit=8):
        if len(self.samples) < limit:
            self.samples.append(trunc(s))

    def write(self):
        os.makedirs(EVID, exist_ok=True)
        cov = dict(evaluations=int(self.evaluations),
                   distinct_nontrivial=int(len(self.nontrivial) + self.nontrivial_extra),
                   rule=self.rule, samples=self.samples, classes=self.classes,
                   known_findings_hit=self.known_hit, inconclusive=self.inconclusive)
        cov.update(self.extra)
        doc = dict(property_id=self.prop, tier=self.tier, seed=seed(), level=self.level, coverage=cov,
                   assumptions=self.assumptions, wall_s=round(time.time() - self.t0, 2),
                   violations=int(self.violations))
        tmp = os.path.join(EVID, '%s.json.tmp%d' % (self.prop, os.getpid()))
        with open(tmp, 'w') as fh:
            json.dump(doc, fh, indent=1, ensure_ascii=False, default=str)
        os.replace(tmp, os.path.join(EVID, '%s.json' % self.prop))


def save_replay(prop, name, content):
    d = os.path.join(REPLAYS, prop)
    p = os.path.join(d, name)
    os.makedirs(os.path.dirname(p), exist_ok=True)
    mode = 'wb' if isinstance(content, bytes) else 'w'
    with open(p, mode) as fh:
        fh.write(content)
    return p


def violation(prop, replay, what=''):
    sys.stdout.write('VIOLATION property=%s replay=%s%s\n' % (prop, replay, (' ' + what) if what else ''))
    sys.stdout.flush()


def known_line(prop, sig, what):
    sys.stdout.write('KNOWN-FINDING: property=%s %s %s\n' % (prop, sig, what))
    sys.stdout.flush()


def _shard_entry(args):
    fn, idx, nshards, kw = args
    try:
        return fn(idx, nshards, **kw)
    except BaseException:
        return {'error': traceback.format_exc()}


def run_shards(fn, nshards=None, **kw):
    """Run fn(idx, nshards, **kw) in separate processes; returns list of result dicts."""
    nshards = nshards or NCPU
    ctx = mp.get_context('fork')
    with ctx.Pool(nshards) as pool:
        res = pool.map(_shard_entry, [(fn, i, nshards, kw) for i in range(nshards)], chunksize=1)
    errs = [r['error'] for r in res if isinstance(r, dict) and 'error' in r]
    if errs:
        sys.stderr.write('SHARD ERROR:\n' + errs[0])
        raise SystemExit(2)
    return res


# ---- sanitizer reports -------------------------------------------------------------------------------------------
import re as _re

SAN_ENV = {
    'ASAN_OPTIONS': 'detect_leaks=0:abort_on_error=0:exitcode=77:allocator_may_return_null=1:handle_abort=1:symbolize=1:detect_stack_use_after_return=0:hard_rss_limit_mb=8000',
    'UBSAN_OPTIONS': 'print_stacktrace=1:halt_on_error=1:exitcode=77:symbolize=1',
}


def san_env(extra=None):
    e = dict(os.environ)
    e.update(SAN_ENV)
    if extra:
        e.update(extra)
    return e


_FRAME = _re.compile(r'#\d+ 0x[0-9a-f]+ in (\S+) (\S+?)(?::(\d+))?(?::\d+)?$', _re.M)


def san_signature(text):
    """(kind, function, file) of the innermost /src/ frame of a sanitizer report, or None."""
    if isinstance(text, bytes):
        text = text.decode('utf-8', 'replace')
    kind = None
    m = _re.search(r'ERROR: AddressSanitizer: ([A-Za-z0-9_-]+)', text)
    if m:
        kind = 'asan:' + m.group(1)
        if m.group(1) == 'SEGV':
            kind = 'asan:SEGV'
    pos = m.start() if m else None
    m2 = _re.search(r'([^\s:]+):(\d+):\d+: runtime error: (.*)', text)
    if m2 and (pos is None or m2.start() < pos):
        msg = m2.group(3)
        msg = _re.sub(r'0x[0-9a-f]+', 'ADDR', msg)
        msg = _re.sub(r'\d+', 'N', msg)
        kind = 'ubsan:' + msg[:60]
        pos = m2.start()
    if kind is None:
        m3 = _re.search(r'ERROR: (ThreadSanitizer|LeakSanitizer|libFuzzer): ([^\n]*)', text)
        if m3:
            kind = m3.group(1) + ':' + m3.group(2)[:40]
            pos = m3.start()
    if kind is None:
        return None
    func, fil = '?', '?'
    for fm in _FRAME.finditer(text, pos or 0):
        path = fm.group(2)
        if '/src/' in path and 'harness' not in path:
            func, fil = fm.group(1), os.path.basename(path)
            break
    if func == '?' and m2:
        fil = os.path.basename(m2.group(1))
    return kind, func, fil


def sig_str(sig):
    return '%s@%s(%s)' % sig if sig else 'unknown'
