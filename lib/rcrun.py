"""Generic driver for the rapidcheck state-machine harnesses (engine E2): shards, journals, replay, classification."""
import json
import os
import shutil
import subprocess

from lib import common, vbuild


class RC:
    def __init__(self, prop, harness, source, rule, assumptions, quick, thorough, max_size, class_names=()):
        self.PROP, self.harness, self.source, self.RULE, self.ASSUMPTIONS = prop, harness, source, rule, assumptions
        self.quick, self.thorough, self.max_size = quick, thorough, max_size
        self.extra = None          # extra(ev, failures, tier): further legs; appends (replay_path, signature)
        self.extra_replay = None   # extra_replay(path) -> signature or None, for replay files the harness binary does not read

    def binary(self):
        return vbuild.harness(self.harness, 'asan', [self.source], libs=['-lrapidcheck'])

    def prebuild(self):
        self.binary()

    def classify(self, path):
        """Run a replay; returns None if it passes, else a signature string."""
        if path.endswith('.json') and self.extra_replay:
            return self.extra_replay(path)
        env = common.san_env()
        env['ASAN_OPTIONS'] += ':detect_leaks=1'
        p = subprocess.run([self.binary(), 'replay', path], env=env, stdout=subprocess.PIPE, stderr=subprocess.PIPE)
        if p.returncode == 0:
            return None
        out, err = p.stdout.decode(errors='replace'), p.stderr.decode(errors='replace')
        sig = common.san_signature(err)
        if sig:
            return common.sig_str(sig)
        for line in out.splitlines():
            if line.startswith('MISMATCH'):
                msg = line.split(': ', 1)[1] if ': ' in line else line
                op = line.split()[4].split('[')[0] if len(line.split()) > 4 else '?'
                return 'model:%s:%s' % (op, msg.split('  [')[0])
        return 'crash:rc=%d' % p.returncode

    def replay(self, path):
        sig = self.classify(path)
        if sig is None:
            print('replay passes:', path)
            return 0
        common.violation(self.PROP, path, sig)
        return 1

    def run(self, tier):
        PROP = self.PROP
        ev = common.Evidence(PROP, tier)
        ev.rule = self.RULE
        ev.assumptions = list(self.ASSUMPTIONS)
        known = common.Known()
        b = self.binary()
        work = common.scratch_dir(PROP.lower())
        nsh = common.NCPU
        per = int((self.quick if tier == 'quick' else self.thorough) * common.budget_scale())
        procs = []
        for i in range(nsh):
            od = os.path.join(work, 's%d' % i)
            os.makedirs(od)
            env = common.san_env({'RC_PARAMS': 'seed=%d max_success=%d max_size=%d' % (common.seed() * 1000 + i + 1, per, self.max_size)})
            env['ASAN_OPTIONS'] += ':detect_leaks=1'      # the harnesses call __lsan_do_recoverable_leak_check() where leaks matter (C18); at exit nothing may be left either
            procs.append((od, subprocess.Popen([b, 'run', od], env=env, stdout=open(os.path.join(od, 'out.txt'), 'wb'),
                                               stderr=open(os.path.join(od, 'err.txt'), 'wb'))))
        failures = []
        sd = os.path.join(common.SEEDS, PROP)
        for f in (sorted(os.listdir(sd)) if os.path.isdir(sd) else []):
            s = self.classify(os.path.join(sd, f))
            ev.add_class('regression_replays')
            ev.evaluations += 1
            if s:
                failures.append((os.path.join(sd, f), s))
        for od, p in procs:
            rc = p.wait()
            st = os.path.join(od, 'stats.json')
            if os.path.exists(st):
                d = json.load(open(st))
                ev.evaluations += d['cases']
                ev.add_class('commands_executed', d['commands'])
                for k in d:
                    if k not in ('cases', 'commands', 'classes', 'nontrivial', 'samples') and isinstance(d[k], int):
                        ev.add_class(k, d[k])
                ev.merge_classes(d['classes'])
                ev.nontrivial.update(d['nontrivial'])
                for s in d['samples']:
                    ev.sample(s)
            if rc != 0:
                src = os.path.join(od, 'failure.txt')
                if not os.path.exists(src):
                    src = os.path.join(od, 'journal.txt')
                data = open(src, 'rb').read() if os.path.exists(src) else b''
                name = '%s-%s-%s.txt' % (PROP.lower(), common.sha(data), os.path.basename(od))
                rp = common.save_replay(PROP, name, data)
                sig = None
                for _ in range(3):
                    sig = self.classify(rp)
                    if sig is None:
                        break
                if sig is None:
                    err = open(os.path.join(od, 'err.txt'), 'rb').read().decode(errors='replace')
                    ev.inconclusive.append('failure did not reproduce from %s: %s' % (rp, err[-300:]))
                    print('INCONCLUSIVE: %s shard failure did not reproduce from %s' % (PROP, rp))
                else:
                    failures.append((rp, sig))
        if self.extra:
            self.extra(ev, failures, tier)
        rcode = 0
        seen = set()
        for rp, sig in failures:
            k = known.match(PROP, sig)
            if k:
                if sig not in seen:
                    common.known_line(PROP, sig, k['what'])
                    ev.known_hit.append(sig)
            else:
                if sig not in seen:
                    common.violation(PROP, rp, sig)
                ev.violations += 1
                rcode = 1
            seen.add(sig)
        ev.write()
        shutil.rmtree(work, ignore_errors=True)
        print('%s %s: %d cases, %d distinct non-trivial, %d violations' % (PROP, tier, ev.evaluations, len(ev.nontrivial), ev.violations))
        return rcode
