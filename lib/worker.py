"""Client for harness/mmdw.cpp (persistent ASan+UBSan worker)."""
import os
import struct
import subprocess
import tempfile

from lib import common, vbuild

FMT = dict(html=0, epub=1, latex=2, beamer=3, memoir=4, fodt=5, odt=6, bundle=7, bundlezip=8, opml=9, itmz=10, mmd=11, htmlassets=12)
EXT = dict(COMPAT=1 << 0, COMPLETE=1 << 1, SNIPPET=1 << 2, SMART=1 << 3, NOTES=1 << 4, NO_LABELS=1 << 5, PROCESS_HTML=1 << 6,
           NO_META=1 << 7, OBFUSCATE=1 << 8, CRITIC=1 << 9, CRITIC_ACCEPT=1 << 10, CRITIC_REJECT=1 << 11, RANDOM_FOOT=1 << 12,
           TRANSCLUDE=1 << 13, PARSE_OPML=1 << 14, PARSE_ITMZ=1 << 15, RANDOM_LABELS=1 << 16)
# what the CLI uses without options:  smart | notes | critic | transclude
EXT_DEFAULT = EXT['SMART'] | EXT['NOTES'] | EXT['CRITIC'] | EXT['TRANSCLUDE']
EXT_COMPAT = EXT['COMPAT'] | EXT['NO_LABELS'] | EXT['OBFUSCATE'] | EXT['NO_META']   # what `-c` sets in main.c


class WorkerTimeout(Exception):
    def __init__(self, request):
        Exception.__init__(self, 'worker timeout')
        self.request = request


class WorkerDied(Exception):
    def __init__(self, report, request):
        Exception.__init__(self, 'worker died')
        self.report = report
        self.request = request
        self.signature = common.sig_str(common.san_signature(report)) if common.san_signature(report) else 'crash:no-report'


def binary(variant='asan'):
    return vbuild.harness('mmdw', variant, ['mmdw.cpp'], extra=['-Wl,--wrap=exit'])


def _b(x):
    if isinstance(x, bytes):
        return x
    if isinstance(x, str):
        return x.encode('utf-8', 'surrogateescape')
    return str(x).encode()


class Worker:
    def __init__(self, variant='asan', env=None):
        self.variant = variant
        self.env = env
        self.p = None
        self.calls = 0
        self.restarts = 0
        self.start()

    def start(self):
        self.errf = tempfile.TemporaryFile()
        self.p = subprocess.Popen([binary(self.variant)], stdin=subprocess.PIPE, stdout=subprocess.PIPE, stderr=self.errf,
                                  env=common.san_env(self.env), bufsize=0)

    def diagnostics(self):
        """Everything the library has written to fd 2 of this worker process so far (the worker itself writes nothing there)."""
        import os
        try:
            n = os.fstat(self.errf.fileno()).st_size
            return os.pread(self.errf.fileno(), min(n, 1 << 16), 0) if n else b''
        except OSError:
            return b''

    def close(self):
        if self.p:
            try:
                self.p.stdin.close()
                self.p.wait(timeout=5)
            except Exception:
                self.p.kill()
            self.p = None

    def restart(self):
        self.close()
        self.restarts += 1
        self.start()

    def _read(self, n):
        buf = b''
        while len(buf) < n:
            if self.deadline is not None:
                import select
                import time
                left = self.deadline - time.time()
                if left <= 0 or not select.select([self.p.stdout], [], [], left)[0]:
                    raise TimeoutError
            c = self.p.stdout.read(n - len(buf))
            if not c:
                raise EOFError
            buf += c
        return buf

    deadline = None

    def call_timeout(self, seconds, *fields):
        """Like call(), but kills the worker and raises WorkerTimeout after `seconds`."""
        import time
        self.deadline = time.time() + seconds
        try:
            return self.call(*fields)
        except TimeoutError:
            self.p.kill()
            self.p.wait()
            self.p = None
            self.restarts += 1
            self.start()
            raise WorkerTimeout([_b(f) for f in fields])
        finally:
            self.deadline = None

    def call(self, *fields):
        """Returns list of byte fields: [status, ..., stderr]."""
        msg = struct.pack('<I', len(fields)) + b''.join(struct.pack('<I', len(f)) + f for f in map(_b, fields))
        self.calls += 1
        try:
            self.p.stdin.write(msg)
            self.p.stdin.flush()
            n = struct.unpack('<I', self._read(4))[0]
            out = []
            for _ in range(n):
                ln = struct.unpack('<I', self._read(4))[0]
                out.append(self._read(ln) if ln else b'')
            return out
        except TimeoutError:
            raise
        except (EOFError, BrokenPipeError, OSError):
            try:
                self.p.wait(timeout=20)
            except Exception:
                self.p.kill()
            self.errf.seek(0)
            rep = self.errf.read().decode('utf-8', 'replace')
            self.p = None
            self.restarts += 1
            self.start()
            raise WorkerDied(rep, [(_b(f)) for f in fields])

    # ---- convenience wrappers ---------------------------------------------------------------------------------------
    def convert(self, src, fmt='html', ext=EXT_DEFAULT, lang=0, api='s', directory='', path=''):
        f = FMT[fmt] if isinstance(fmt, str) else fmt
        r = self.call('convert', api, f, ext, lang, directory, src, path)
        return Result(r)

    def meta(self, family, op, src, key='', value='', vnull=False):
        return self.call('meta', family, op, src, key, value, '1' if vnull else '0')

    def critic(self, op, src, start=0, length=-1):
        return self.call('critic', op, start, length, src)


class Result:
    def __init__(self, r):
        self.status = r[0].decode()
        self.raw = r
        self.out = r[1] if len(r) > 1 else b''
        self.src_same = (r[2] == b'1') if len(r) > 3 else True
        self.src_after = r[3] if len(r) > 4 else None
        self.stderr = r[-1]

    @property
    def text(self):
        return self.out.decode('utf-8', 'replace')
