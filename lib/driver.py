"""./check driver: dispatches to props/<id>.py (each exposes run(tier) -> int and replay(path) -> int)."""
import argparse
import importlib
import os
import sys
import time

HERE = os.path.dirname(os.path.abspath(__file__))
sys.path.insert(0, HERE)
sys.path.insert(0, os.path.dirname(HERE))
import common  # noqa: E402
import vbuild  # noqa: E402


def setup():
    t = time.time()
    import shutil
    for tool in ('clang', 'clang++', 'ar', 'python3-vt'):
        if not shutil.which(tool):
            print('setup: missing tool', tool)
            return 2
    import hypothesis  # noqa: F401
    dt = vbuild.build_all()
    print('setup: built %d library variants in %.0fs' % (len(vbuild.VARIANTS), dt))
    # pre-build harness binaries so the first quick check does not pay for them
    import glob
    for f in sorted(glob.glob(os.path.join(os.path.dirname(HERE), 'props', 'c[0-9][0-9].py'))):
        mod = importlib.import_module('props.' + os.path.basename(f)[:-3])
        if hasattr(mod, 'prebuild'):
            t1 = time.time()
            mod.prebuild()
            print('setup: %s harness ready (%.0fs)' % (os.path.basename(f)[:-3], time.time() - t1))
    print('setup: done in %.0fs' % (time.time() - t))
    return 0


def main():
    ap = argparse.ArgumentParser()
    ap.add_argument('prop', nargs='?')
    ap.add_argument('--setup', action='store_true')
    ap.add_argument('--tier', choices=['quick', 'thorough'])
    ap.add_argument('--replay')
    a = ap.parse_args()
    if a.setup:
        return setup()
    if not a.prop:
        ap.error('property id required')
    pid = a.prop.upper()
    if a.tier:
        os.environ['VERIF_TIER'] = a.tier
    mod = importlib.import_module('props.' + pid.lower())
    if a.replay:
        return mod.replay(a.replay)
    return mod.run(common.tier())


if __name__ == '__main__':
    sys.exit(main())
