"""Sharded Hypothesis runner (engine E3).

A property module provides
    PROP, RULE, ASSUMPTIONS
    strategy(tier)            -> hypothesis strategy producing a JSON-serialisable case
    check(case, ctx)          -> None, or raises Violation(signature, detail)
                                 ctx.w        persistent worker (lib.worker.Worker)
                                 ctx.cls(k)   count a class, ctx.nontrivial(case_key) mark a distinct non-trivial case
                                 ctx.sample(x)
and calls hyp.run(module, tier, quick_s=.., thorough_s=..).
"""
import json
import os
import sys
import time
import traceback

from hypothesis import HealthCheck, Phase, given, seed as hseed, settings

from lib import common, worker as wk


class Violation(Exception):
    """noshrink=True: a verdict that is expensive to re-establish (time-outs); the shard reports the original case as is."""
    def __init__(self, signature, detail='', noshrink=False):
        Exception.__init__(self, signature)
        self.signature = signature
        self.detail = detail
        self.noshrink = noshrink


class Ctx:
    def __init__(self, variant='asan', env=None, known=()):
        self.w = wk.Worker(variant, env) if variant else None
        self.classes = {}
        self.nt = set()
        self.samples = []
        self.evaluations = 0
        self.known = set(known)
        self.known_hit = {}
        self.scratch = None

    def cls(self, k, n=1):
        self.classes[k] = self.classes.get(k, 0) + n

    def nontrivial(self, key):
        self.nt.add(common.sha(key if isinstance(key, (bytes, str)) else json.dumps(key, sort_keys=True)))

    def sample(self, x, limit=4):
        if len(self.samples) < limit:
            self.samples.append(common.trunc(x if isinstance(x, str) else json.dumps(x, ensure_ascii=False), 500))


def _run_check(mod, case, ctx):
    """Runs mod.check; converts worker deaths into Violations; swallows known findings (counted)."""
    try:
        mod.check(case, ctx)
    except wk.WorkerDied as d:
        v = Violation(d.signature, d.report[-3000:])
        if v.signature in ctx.known:
            ctx.known_hit[v.signature] = ctx.known_hit.get(v.signature, 0) + 1
            return
        raise v
    except Violation as v:
        if v.signature in ctx.known:
            ctx.known_hit[v.signature] = ctx.known_hit.get(v.signature, 0) + 1
            return
        raise


def _shard(idx, nshards, modname=None, tier='quick', seconds=20, chunk=300, known=()):
    import importlib
    mod = importlib.import_module(modname)
    ctx = Ctx(getattr(mod, 'VARIANT', 'asan'), getattr(mod, 'WORKER_ENV', None), known)
    ctx.scratch = os.path.join(common.VERIF, '.cache', 'run-%s-%d' % (mod.PROP.lower(), os.getppid()), 'shard%d' % idx)
    os.makedirs(ctx.scratch, exist_ok=True)
    if hasattr(mod, 'shard_init'):
        mod.shard_init(ctx, idx)
    strat = mod.strategy(tier)
    t_end = time.time() + seconds
    state = {'last': None}
    failure = None
    round_ = 0
    base_seed = common.seed() * 100003 + idx * 1009
    while time.time() < t_end and failure is None:
        round_ += 1

        @hseed(base_seed + round_)
        @settings(max_examples=chunk, database=None, deadline=None, derandomize=False, report_multiple_bugs=False,
                  suppress_health_check=list(HealthCheck), phases=(Phase.generate, Phase.shrink))
        @given(strat)
        def prop(case):
            if state.get('abort'):
                raise state['abort'][0]
            state['last'] = case
            ctx.evaluations += 1
            try:
                _run_check(mod, case, ctx)
            except Violation as v:
                if v.noshrink:
                    state['abort'] = (v, case)
                raise

        try:
            prop()
        except Violation as v:
            failure = {'signature': v.signature, 'detail': v.detail, 'case': state['abort'][1] if state.get('abort') else state['last']}
        except BaseException as e:   # bug in the harness itself: surface it, do not hide it
            failure = {'signature': 'harness-error:' + type(e).__name__, 'detail': traceback.format_exc()[-3000:], 'case': state['last']}
    if ctx.w:
        ctx.w.close()
    return dict(evaluations=ctx.evaluations, classes=ctx.classes, nt=list(ctx.nt), samples=ctx.samples, failure=failure,
                known_hit=ctx.known_hit, restarts=ctx.w.restarts if ctx.w else 0)


def replay_case(mod, case, ctx=None):
    """Returns None if the case passes, else (signature, detail)."""
    own = ctx is None
    if own:
        ctx = Ctx(getattr(mod, 'VARIANT', 'asan'), getattr(mod, 'WORKER_ENV', None))
        ctx.scratch = common.scratch_dir(mod.PROP.lower() + '-replay')
        if hasattr(mod, 'shard_init'):
            mod.shard_init(ctx, 0)
    try:
        mod.check(case, ctx)
        return None
    except wk.WorkerDied as d:
        return d.signature, d.report[-3000:]
    except Violation as v:
        return v.signature, v.detail
    finally:
        if own:
            if ctx.w:
                ctx.w.close()
            import shutil
            shutil.rmtree(ctx.scratch, ignore_errors=True)


def replay(mod, path):
    case = json.load(open(path))
    if isinstance(case, dict) and 'case' in case and 'signature' in case:
        case = case['case']
    r = replay_case(mod, case)
    if r is None:
        print('replay passes:', path)
        return 0
    common.violation(mod.PROP, path, r[0])
    print(r[1])
    return 1


def regression_cases(mod):
    d = os.path.join(common.SEEDS, mod.PROP)
    out = []
    if os.path.isdir(d):
        for f in sorted(os.listdir(d)):
            if f.endswith('.json'):
                out.append(os.path.join(d, f))
    return out


def run(mod, tier, quick_s=25, thorough_s=600, chunk=300, extra_evidence=None):
    ev = common.Evidence(mod.PROP, tier)
    ev.rule = mod.RULE
    ev.assumptions = list(getattr(mod, 'ASSUMPTIONS', []))
    known = common.Known()
    known_sigs = [k['signature'] for k in known.known(mod.PROP)]
    # make sure the worker exists before forking shards
    if getattr(mod, 'VARIANT', 'asan'):
        wk.binary(getattr(mod, 'VARIANT', 'asan'))
    if hasattr(mod, 'prebuild'):
        mod.prebuild()
    seconds = (quick_s if tier == 'quick' else thorough_s) * common.budget_scale()
    work = common.scratch_dir(mod.PROP.lower())
    failures = []
    # 1. committed regression replays (shrunk failures of fixed defects, known findings)
    for p in regression_cases(mod):
        doc = json.load(open(p))
        case = doc['case'] if isinstance(doc, dict) and 'case' in doc and 'signature' in doc else doc
        r = replay_case(mod, case)
        ev.add_class('regression_replays')
        ev.evaluations += 1
        if r is not None:
            failures.append(dict(signature=r[0], detail=r[1], case=case, path=p))
    # 2. generated search
    res = common.run_shards(_shard, None, modname=mod.__name__, tier=tier, seconds=seconds, chunk=chunk, known=known_sigs)
    for r in res:
        ev.evaluations += r['evaluations']
        ev.merge_classes(r['classes'])
        ev.nontrivial.update(r['nt'])
        for s in r['samples']:
            ev.sample(s)
        for k, n in r['known_hit'].items():
            ev.add_class('known_finding_cases_excluded:' + k, n)
        if r['restarts']:
            ev.add_class('worker_restarts', r['restarts'])
        if r['failure']:
            failures.append(r['failure'])
    if extra_evidence:
        extra_evidence(ev)
    rcode = 0
    seen = set()
    hit_known = set()
    for r in res:
        hit_known.update(r['known_hit'].keys())
    for f in failures:
        sig = f['signature']
        k = known.match(mod.PROP, sig)
        if k:
            hit_known.add(sig)
            continue
        if sig in seen:          # one confirmed replay per signature is enough
            ev.violations += 1
            continue
        # reproduce three times on fresh workers before raising the alarm
        if 'path' in f:
            rp, ok = f['path'], True
        else:
            rp = common.save_replay(mod.PROP, '%s-%s.json' % (mod.PROP.lower(), common.sha(json.dumps(f['case'], sort_keys=True))),
                                    json.dumps({'signature': sig, 'case': f['case'], 'detail': f['detail']}, indent=1, ensure_ascii=False))
            ok = all(replay_case(mod, f['case']) is not None for _ in range(1 if sig.startswith('termination:') else 3))
        if not ok and not sig.startswith('harness-error'):
            ev.inconclusive.append('failure %s did not reproduce 3x (%s)' % (sig, rp))
            sys.stdout.write('INCONCLUSIVE: %s did not reproduce from %s\n' % (sig, rp))
            continue
        ev.violations += 1
        rcode = 1
        if sig not in seen:
            common.violation(mod.PROP, rp, sig)
            sys.stdout.write((f['detail'] or '')[:1500] + '\n')
        seen.add(sig)
    for sig in sorted(hit_known):
        k = known.match(mod.PROP, sig)
        common.known_line(mod.PROP, sig, k['what'] if k else '')
        ev.known_hit.append(sig)
    ev.write()
    import shutil
    shutil.rmtree(work, ignore_errors=True)
    print('%s %s: %d cases, %d distinct non-trivial, %d violations' % (mod.PROP, tier, ev.evaluations, len(ev.nontrivial), ev.violations))
    return rcode
