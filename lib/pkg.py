"""Reading package outputs (EPUB, ODT, TextBundle, ITMZ) with Python's zipfile (independent of miniz) and masking the
declared-random parts (UUIDs, today's date, zip timestamps) so two packages of the same source can be compared."""
import io
import re
import zipfile

UUID = re.compile(rb'[0-9a-fA-F]{8}-[0-9a-fA-F]{4}-[0-9a-fA-F]{4}-[0-9a-fA-F]{4}-[0-9a-fA-F]{12}')
DATE = re.compile(rb'(<meta property="dcterms:modified">)[^<]*(</meta>)')
DATE2 = re.compile(rb'(<dc:date>)[^<]*(</dc:date>)')


def members(data):
    """[(name, bytes, ZipInfo)] in archive order; raises zipfile.BadZipFile."""
    z = zipfile.ZipFile(io.BytesIO(data))
    return [(i.filename, z.read(i), i) for i in z.infolist()]


class Masker:
    """Replaces every UUID by a stable ordinal (so the *pattern* of equal/different ids is still compared) and blanks dates."""
    def __init__(self):
        self.seen = {}

    def _rep(self, m):
        k = m.group(0).lower()
        if k not in self.seen:
            self.seen[k] = b'UUID-%04d' % len(self.seen)
        return self.seen[k]

    def __call__(self, b):
        b = UUID.sub(self._rep, b)
        b = DATE.sub(rb'\1DATE\2', b)
        return DATE2.sub(rb'\1DATE\2', b)


def mask(b):
    return Masker()(b)


def masked_view(data):
    """Canonical comparable form of a package: list of (masked name, masked content); one UUID numbering across the
    whole package, so cross-member references are compared too."""
    mk = Masker()
    return [(mk(n.encode()), mk(c)) for n, c, _ in members(data)]


def is_package_fmt(fmt):
    return fmt in ('epub', 'odt', 'bundlezip', 'itmz', 1, 6, 8, 10)
