"""libFuzzer campaign runner: fork-mode campaigns, artifact collection, re-execution and classification."""
import glob
import os
import re
import shutil
import subprocess
import time

from lib import common, vbuild

FIX = os.path.join(common.VERIF, '.cache', 'fixture')

PNG = bytes.fromhex('89504e470d0a1a0a0000000d49484452000000010000000108060000001f15c489'
                    '0000000d49444154789c6360000002000001e221bc330000000049454e44ae426082')


def fixture():
    """Idempotent fixture tree used as `directory` argument and as transclusion search path."""
    files = {
        'pic.png': PNG, 'img/pic2.png': PNG, 'style.css': b'body { color: red; }\n',
        'tr/top.txt': b'top\n', 'tr/self.txt': b'{{self.txt}}\n', 'tr/a.txt': b'A {{b.txt}}\n', 'tr/b.txt': b'B {{a.txt}}\n',
        'tr/m.txt': b'Title: t\ntransclude base: sub\n\nbody {{c.txt}}\n', 'tr/sub/c.txt': b'C text {{../d.*}}\n',
        'tr/d.html': b'<b>d</b>\n', 'tr/d.tex': b'\\textbf{d}\n', 'tr/d.txt': b'*d*\n', 'tr/d.fodt': b'<text:p>d</text:p>\n',
        'tr/dot.txt': b'transclude base: .\n\n{{dot.txt}}\n', 'tr/sub/top.txt': b'{{top.txt}} {{c.txt}}\n',
    }
    for rel, content in files.items():
        p = os.path.join(FIX, rel)
        if not os.path.exists(p) or open(p, 'rb').read() != content:
            os.makedirs(os.path.dirname(p), exist_ok=True)
            with open(p, 'wb') as fh:
                fh.write(content)
    return FIX


def corpus_texts():
    return sorted(glob.glob(os.path.join(vbuild.REPO, 'tests', '*', '*.text')))


_STAT = re.compile(r'#(\d+): cov: (\d+) ft: (\d+) corp: (\d+) exec/s (\d+) oom/timeout/crash: (\d+)/(\d+)/(\d+) time: (\d+)s')
_STAT1 = re.compile(r'#(\d+)\s+(?:DONE|pulse|NEW|REDUCE|INITED)\s+cov: (\d+) ft: (\d+) corp: (\d+)')


class Campaign:
    def __init__(self, binary, name, workdir, seeds_dirs=(), env=None, max_len=4096, dict_path=None, extra=()):
        self.binary, self.name, self.env = binary, name, env or {}
        self.dir = os.path.join(workdir, name)
        self.corpus = os.path.join(self.dir, 'corpus')
        self.art = os.path.join(self.dir, 'art')
        os.makedirs(self.corpus, exist_ok=True)
        os.makedirs(self.art, exist_ok=True)
        self.seeds_dirs = [d for d in seeds_dirs if d and os.path.isdir(d)]
        self.max_len, self.dict_path, self.extra = max_len, dict_path, list(extra)
        self.proc = None
        self.n_seed = 0

    def start(self, seconds, forks, seed):
        # copy seeds in (fresh corpus dir every run)
        for d in self.seeds_dirs:
            for f in sorted(os.listdir(d)):
                p = os.path.join(d, f)
                if os.path.isfile(p) and os.path.getsize(p) <= max(self.max_len, 1 << 16):
                    shutil.copy(p, os.path.join(self.corpus, 'seed-%s-%s' % (common.sha(p), re.sub(r'[^A-Za-z0-9._-]', '_', f)[:60])))
        self.n_seed = len(os.listdir(self.corpus))
        cmd = [self.binary, '-fork=%d' % forks, '-ignore_crashes=1', '-ignore_timeouts=1', '-ignore_ooms=1',
               '-max_total_time=%d' % seconds, '-seed=%d' % seed, '-max_len=%d' % self.max_len, '-rss_limit_mb=4096',
               '-timeout=25', '-artifact_prefix=' + self.art + '/', '-print_final_stats=1', '-detect_leaks=0']
        if self.dict_path:
            cmd.append('-dict=' + self.dict_path)
        cmd += self.extra + [self.corpus]
        env = common.san_env(self.env)
        self.log = os.path.join(self.dir, 'log.txt')
        self.proc = subprocess.Popen(cmd, env=env, stdout=open(self.log, 'wb'), stderr=subprocess.STDOUT, cwd=self.dir)
        self.t0 = time.time()
        return self

    def wait(self):
        self.proc.wait()
        txt = open(self.log, 'rb').read().decode('utf-8', 'replace')
        execs = cov = corp = 0
        for m in _STAT.finditer(txt):
            execs, cov, corp = int(m.group(1)), int(m.group(2)), int(m.group(4))
        if not execs:
            for m in _STAT1.finditer(txt):
                execs, cov, corp = int(m.group(1)), int(m.group(2)), int(m.group(4))
        self.execs, self.cov = execs, cov
        new = [f for f in os.listdir(self.corpus) if not f.startswith('seed-')]
        self.corpus_new = len(new)
        self.artifacts = sorted(glob.glob(os.path.join(self.art, 'crash-*')))
        self.noise = len(glob.glob(os.path.join(self.art, 'timeout-*'))) + len(glob.glob(os.path.join(self.art, 'oom-*'))) + len(glob.glob(os.path.join(self.art, 'slow-unit-*')))
        return self


_ORACLE = re.compile(r'ORACLE-FAIL property=(\S+) signature=(\S+)')


def execute(binary, path, env=None, timeout=120, hang_is_failure=False):
    """Run one input through a libFuzzer binary; returns (ok, signature, stderr_text)."""
    try:
        p = subprocess.run([binary, '-detect_leaks=0', '-rss_limit_mb=4096', '-timeout=60', path], env=common.san_env(env or {}),
                           stdout=subprocess.PIPE, stderr=subprocess.PIPE, timeout=timeout)
    except subprocess.TimeoutExpired:
        return (False, 'hang@?', '') if hang_is_failure else (True, 'timeout', '')
    err = p.stderr.decode('utf-8', 'replace')
    if p.returncode == 0:
        return True, None, err
    if hang_is_failure and ('libFuzzer: timeout' in err or p.returncode == 70):
        m = re.search(r'#\d+ 0x[0-9a-f]+ in (\w+) /repo/src/([\w.\-]+):', err) or re.search(r'#\d+ 0x[0-9a-f]+ in (\w+) [^\n]*/src/([\w.\-]+):', err)
        return False, ('hang@%s(%s)' % (m.group(1), m.group(2)) if m else 'hang@?'), err
    m = _ORACLE.search(err)
    if m:
        return False, 'oracle:' + m.group(2), err
    sig = common.san_signature(err)
    if sig:
        return False, common.sig_str(sig), err
    if 'libFuzzer: timeout' in err or 'out-of-memory' in err or p.returncode in (70, 71):      # (libFuzzer's exit codes for its time and memory limits)
        return True, 'noise', err
    m = re.search(r'ERROR: libFuzzer: deadly signal', err)
    return False, 'crash:signal' if m else 'crash:rc=%d' % p.returncode, err


def detail(binary, path, env=None, limit=900):
    """Human-readable reason for a failing input (oracle message or the head of the sanitizer report), printed under the VIOLATION line."""
    ok, sig, err = execute(binary, path, env)
    m = re.search(r'ORACLE-FAIL[^\n]*\n[^\n]*', err)
    if m:
        return m.group(0)[:limit]
    m = re.search(r'(ERROR: \w+Sanitizer|runtime error)[^\n]*(\n\s+#\d[^\n]*){0,6}', err)
    return (m.group(0) if m else err[-limit:])[:limit]


def confirm_hangs(binary, art_dir, env=None, limit=3, secs=60):
    """libFuzzer's per-unit time limit in a 16-way loaded fork campaign is load noise -- unless the input really does not finish.  The
    smallest `limit` timeout artifacts are re-executed alone with a generous limit; returns {signature: [paths]} for those that still
    exceed it (signature = innermost project function on the stack that libFuzzer prints)."""
    out = {}
    paths = sorted(glob.glob(os.path.join(art_dir, 'timeout-*')) + glob.glob(os.path.join(art_dir, 'oom-*')), key=lambda p: os.path.getsize(p))[:limit]
    for p in paths:
        try:
            r = subprocess.run([binary, '-detect_leaks=0', '-rss_limit_mb=6000', '-malloc_limit_mb=6000', '-timeout=%d' % secs, p], env=common.san_env(env or {}),
                               stdout=subprocess.PIPE, stderr=subprocess.PIPE, timeout=secs + 60)
            err = r.stderr.decode('utf-8', 'replace')
            if r.returncode == 70:
                err += '\nlibFuzzer: timeout'
            elif r.returncode == 71:
                err += '\nlibFuzzer: out-of-memory'
        except subprocess.TimeoutExpired:
            err = 'libFuzzer: timeout (killed)'
        # an input of a few kilobytes that needs more than 6 GB when it runs alone does not "return control" on any ordinary machine either
        kind = 'hang' if 'libFuzzer: timeout' in err else 'oom' if 'libFuzzer: out-of-memory' in err else None
        if kind is None:
            continue
        m = None
        for mm in re.finditer(r'#\d+ 0x[0-9a-f]+ in (\w+) [^\n]*/src/([\w.\-]+):', err):
            if mm.group(1) not in ('__sanitizer_print_stack_trace', 'ensureStringBufferCanHold', 'd_string_append_c', 'd_string_append', 'd_string_append_c_array', 'd_string_append_printf'):
                m = mm
                break
        sig = '%s@%s(%s)' % (kind, m.group(1), m.group(2)) if m else kind + '@?'
        out.setdefault(sig, []).append(p)
    return out


def classify_artifacts(binary, paths, env=None, limit=400):
    """Re-execute artifacts; returns {signature: [paths]} for those that fail reproducibly (3x)."""
    out = {}
    unrepro = 0
    # smallest first: they make the best replay files
    paths = sorted(paths, key=lambda p: os.path.getsize(p))[:limit]
    for p in paths:
        ok, sig, err = execute(binary, p, env)
        if ok:
            unrepro += 1
            continue
        if sig in out and len(out[sig]) >= 3:
            out[sig].append(p)
            continue
        stable = True
        for _ in range(2):
            ok2, sig2, _e = execute(binary, p, env)
            if ok2 or sig2 != sig:
                stable = False
        if stable:
            out.setdefault(sig, []).append(p)
        else:
            unrepro += 1
    return out, unrepro
