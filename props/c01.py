"""C01 — memory-safe, crash-free handling of arbitrary input at every text-accepting entry point.

Engine E1: libFuzzer target harness/fz_c01.cpp (six entry-point families selected by FZ_MODE) built against the
`fuzz` (token pool on) and `fuzz-nopool` (DISABLE_OBJECT_POOL: tokens really freed) variants, ASan + UBSan.
"""
import base64
import json
import os
import shutil
import struct
import subprocess
import zipfile

from lib import common, fuzz, vbuild

PROP = 'C01'
MODES = ['convert', 'meta', 'critic', 'opml', 'itmz', 'transclude']
VARIANTS = ['fuzz-nopool', 'fuzz']
RULE = ('coverage-guided byte mutation (libFuzzer, fork mode) from the repository corpus, OPML/ITMZ exports of it and '
        'structured regression seeds; a trailer decoded from the end of each input selects format (13), extension bits '
        '(17), language (7), API variant and directory. Oracle: the call returns and neither ASan nor UBSan fires. '
        'A case is non-trivial when it added coverage (was kept in the corpus); distinct by content hash (corpus file '
        'names). distinct_nontrivial = corpus additions summed over the 12 mode x variant campaigns.')


def binary(variant):
    return vbuild.harness('fz_c01', variant, ['fz_c01.cpp'], extra=['-fsanitize=fuzzer', '-Wl,--wrap=exit'])


def prebuild():
    for v in VARIANTS:
        binary(v)


# ---- trailer encoders (FuzzedDataProvider takes integrals from the end, last byte = most significant) -------------
def _rev(v, n):
    # bytes such that reading from the end (MSB first) yields v
    return bytes((v >> (8 * i)) & 255 for i in range(n))


def enc_convert(doc, fmt=0, ext=0x218, lang=0, api=2, usedir=0, a=0, b=0):
    return doc + _rev(b, 2) + _rev(a, 2) + bytes([usedir]) + bytes([api]) + bytes([lang]) + _rev(ext, 4) + bytes([fmt])


def enc_meta(doc, key=b'', val=b'', family=0, op=2, vnull=1, ext=0):
    return key + val + doc + _rev(ext, 4) + bytes([vnull]) + bytes([len(val)]) + bytes([len(key)]) + bytes([op]) + bytes([family])


def enc_critic(doc, op=0, a=0, b=0):
    return doc + _rev(b, 2) + _rev(a, 2) + bytes([op])


def enc_opml(doc, api=0, fmt=0, ext=0x218):
    return doc + _rev(ext, 4) + bytes([fmt]) + bytes([api])


def enc_itmz(raw, api=0, fmt=0):
    return raw + bytes([fmt]) + bytes([api])


def enc_transclude(doc, api=0, fmt=0, sp=0):
    return doc + bytes([sp]) + bytes([fmt]) + bytes([api])


# ---- structured regression documents (each one a fixed or known defect, or a region the mutator rarely reaches) ----
def structured_docs():
    row = '|' + '|'.join('c%d' % i for i in range(60)) + '|\n'
    sep = '|' + '|'.join([':-:'] * 60) + '|\n'
    docs = {
        'table-60-columns': row + sep + row,
        'table-300-columns': ('|' + 'a|' * 300 + '\n|' + '-|' * 300 + '\n|' + 'b|' * 300 + '\n'),
        'empty-attr-value': '![a](b.png width= 40)\n\n![c][d]\n\n[d]: e.png height= width=\n',
        'toc-in-list': '*\t{{TOC}}\n\t{{TOC:2}}\n\n# h\n\n  {{TOC:2-3}}\n',
        'raw-fence-only': 'a\n\n```{=html}',
        'raw-fence-only-latex': 'a\n\n```{=latex}\n',
        'glossary-in-setext-heading': 'title: t\n\n[?bar] [?bar]\n---\n\ntext [?bar]\n\n[?bar]: BAR\n',
        'inline-note-newline-only': 'x[>(a)\n] y [?(b)\n] z [^\n]\n',
        'meta-no-newline-multibyte': 'title: café\nauthor: \U0001F600',
        'meta-key-only': 'tivlVe:',
        'link-attributes-and-same-label': '[the manual](http://x/y.pdf class="external") and [the manual][] ![i](p.png width=40px)\n\n[the manual]: http://z "T" width=40px\n\n# the manual\n',
        'image-with-empty-url': '![a]()\n\ntext ![b][r]\n\n[r]: <>\n',
        'long-transclusion-marker': 'a {{' + 'x' * 1500 + '}} b\n',
        'long-image-url': '![a](' + 'u' * 1500 + '.png)\n\n![b](pic.png "t")\n',
        'email-autolinks': '<a@b.c> <mailto:d@e.f>\n\n[^n]: <g@h.i>\n\ntext[^n]\n',
        'deep-mixed-nesting': ''.join('[(<{{*_' for _ in range(60)) + 'x' + ''.join('_*}}>)]' for _ in range(60)) + '\n',
        'critic-unbalanced': 'a {++b {--c--} d {~~e~>f~~} {==g==}{>>h<<} <<} ~> ++}\n',
        'abbrev-and-glossary': '[>abbr] [>(ab) x] [?term] [#cite] [#cite;]\n\n[>abbr]: ABBR\n[?term]: def\n[#cite]: ref\n',
        'html-blocks': '<div>\n*a*\n</div>\n\n<!-- c\n\n-->\n\n<span markdown="1">x</span>\n',
        'defs-and-tables': 'term\n: def\n\n| a |\n|---|\n| b |\n[caption][lbl]\n\n[lbl]: u "t" width=3px\n',
        'opml-heading-without-text': '#\n\n# \n\n##\tx\n=\n-\n',
    }
    return {k: v.encode('utf-8') for k, v in docs.items()}


OPML_DOCS = {
    'short-attr-name': b'<?xml version="1.0"?><opml version="1.0"><head><title>t</title></head><body><outline a="x" text="y" _note="n"/></body></opml>',
    'nested': b'<opml><body><outline text="A" _note="a&#10;b"><outline text="B"><outline text="C &amp; &lt;d&gt;" _note="&quot;q&apos;"/></outline></outline><outline text="&gt;&gt;Metadata&lt;&lt;"><outline text="title" _note="T"/></outline></body></opml>',
    'unterminated': b'<opml><body><outline text="A',
    'empty-text': b'<opml><body><outline text="" _note=""/><outline/></body></opml>',
    'preamble': b'<opml><body><outline text="&gt;&gt;Preamble&lt;&lt;" _note="pre"/><outline text="H"/></body></opml>',
}
ITMZ_DOCS = {
    'topic': b'<?xml version="1.0"?><iThoughts><topics><topic text="A" note="n"><topic text="B" t="1"/></topic><topic text="&gt;&gt;Metadata&lt;&lt;"><topic text="k" note="v"/></topic></topics></iThoughts>',
    'short-attr': b'<iThoughts><topic a="" text="y"/></iThoughts>',
}


def make_regression_inputs(outdir):
    """Writes mode/<name> files; returns {mode: [paths]}."""
    res = {m: [] for m in MODES}
    def put(mode, name, data):
        d = os.path.join(outdir, mode)
        os.makedirs(d, exist_ok=True)
        p = os.path.join(d, name)
        with open(p, 'wb') as fh:
            fh.write(data)
        res[mode].append(p)
    for name, doc in structured_docs().items():
        for fmt in range(13):
            put('convert', '%s-f%02d' % (name, fmt), enc_convert(doc, fmt=fmt, ext=0x218 | (0x100 if fmt % 2 else 0), api=2, usedir=fmt % 2))
        put('convert', name + '-compat', enc_convert(doc, fmt=0, ext=0x181, api=0))
        put('convert', name + '-engine', enc_convert(doc, fmt=1, ext=0x21a, api=6, usedir=1))
        put('convert', name + '-substr', enc_convert(doc, fmt=0, ext=0x218, api=5, a=3, b=len(doc) // 2))
        for op in range(4):
            put('meta', '%s-op%d' % (name, op), enc_meta(doc, key=b'title', val=b'new value', family=op % 3, op=op, vnull=1))
            put('critic', '%s-op%d' % (name, op), enc_critic(doc, op=op, a=2, b=len(doc)))
            put('transclude', '%s-api%d' % (name, op), enc_transclude(doc, api=op, fmt=op, sp=op % 3))
    # large structured documents: a few writers only
    wide = ('|'.join('a' for _ in range(33000)) + '\n' + '|'.join('-' for _ in range(33000)) + '\n' + '|'.join('b' for _ in range(33000)) + '\n').encode()
    for fmt in (0, 2, 5):
        put('convert', 'table-33000-columns-f%02d' % fmt, enc_convert(wide, fmt=fmt, ext=0x218, api=2))
    for name, doc in OPML_DOCS.items():
        for api in range(5):
            for fmt in sorted(set((api, 11, 9, 0))):          # 11 = FORMAT_MMD: the import result itself, nothing is parsed afterwards
                put('opml', '%s-api%d-f%d' % (name, api, fmt), enc_opml(doc, api=api, fmt=fmt))
    for name, doc in ITMZ_DOCS.items():
        for api in range(6):
            for fmt in sorted(set((api, 11, 0))):
                put('itmz', '%s-api%d-f%d' % (name, api, fmt), enc_itmz(doc, api=api, fmt=fmt))
    # committed raw artifacts (already carry their trailer)
    sd = os.path.join(common.SEEDS, PROP)
    if os.path.isdir(sd):
        for mode in MODES:
            md = os.path.join(sd, mode)
            if os.path.isdir(md):
                for f in sorted(os.listdir(md)):
                    put(mode, 'seed-' + f, open(os.path.join(md, f), 'rb').read())
    return res


def make_import_seeds(work):
    """OPML / ITMZ exports of the corpus, produced with the plain CLI from the current tree."""
    cli = vbuild.cli('plain')
    od, idr = os.path.join(work, 'seed-opml'), os.path.join(work, 'seed-itmz')
    os.makedirs(od)
    os.makedirs(idr)
    n = 0
    for p in fuzz.corpus_texts():
        if os.path.getsize(p) > 6000:
            continue
        n += 1
        base = common.sha(p)
        try:
            r = subprocess.run([cli, '-t', 'opml', p], stdout=subprocess.PIPE, stderr=subprocess.DEVNULL, timeout=20)
            if r.returncode == 0 and r.stdout:
                open(os.path.join(od, base + '.opml'), 'wb').write(r.stdout)
            r = subprocess.run([cli, '-t', 'itmz', p], stdout=subprocess.PIPE, stderr=subprocess.DEVNULL, timeout=20)
            if r.returncode == 0 and r.stdout:
                open(os.path.join(idr, base + '.itmz'), 'wb').write(r.stdout + b'\x00\x00')
                import io
                try:
                    z = zipfile.ZipFile(io.BytesIO(r.stdout))
                    open(os.path.join(idr, base + '.xml'), 'wb').write(z.read('mapdata.xml') + b'\x00\x01')
                except Exception:
                    pass
        except subprocess.TimeoutExpired:
            pass
    for name, doc in OPML_DOCS.items():
        open(os.path.join(od, name), 'wb').write(enc_opml(doc))
    for name, doc in ITMZ_DOCS.items():
        open(os.path.join(idr, name), 'wb').write(enc_itmz(doc, api=1))
    return od, idr


def _env(mode):
    return {'FZ_MODE': mode, 'FZ_FIXTURE': fuzz.fixture()}


def run_paths(b, mode, paths):
    return subprocess.run([b, '-detect_leaks=0', '-rss_limit_mb=4096', '-timeout=120'] + paths, env=common.san_env(_env(mode)), stdout=subprocess.PIPE, stderr=subprocess.PIPE)


def replay_sequence(path):
    import base64, json, tempfile
    spec = json.load(open(path))
    d = tempfile.mkdtemp(prefix='c01seq', dir=common.scratch_dir('c01seq'))
    files = []
    for i, x in enumerate(spec['inputs']):
        f = os.path.join(d, '%04d' % i)
        open(f, 'wb').write(base64.b64decode(x))
        files.append(f)
    q = run_paths(binary(spec['variant']), spec['mode'], files)
    shutil.rmtree(d, ignore_errors=True)
    if q.returncode != 0:
        sig = common.san_signature(q.stderr)
        common.violation(PROP, path, (common.sig_str(sig) if sig else 'crash') + ':after-earlier-conversions variant=%s mode=%s' % (spec['variant'], spec['mode']))
        print(q.stderr.decode(errors='replace')[-2500:])
        return 1
    print('replay passes:', path)
    return 0


def run_regressions(reg, ev):
    """Every regression input through both variants; returns [(path, variant, mode, sig)]."""
    fails = []
    for v in VARIANTS:
        b = binary(v)
        for mode in MODES:
            paths = reg[mode]
            if not paths:
                continue
            ev.add_class('regression_inputs_%s' % v, len(paths))
            p = subprocess.run([b, '-detect_leaks=0', '-rss_limit_mb=4096', '-timeout=120'] + paths, env=common.san_env(_env(mode)),
                               stdout=subprocess.PIPE, stderr=subprocess.PIPE)
            if p.returncode != 0:
                # find the culprits one by one
                found = False
                for path in paths:
                    ok, sig, _err = fuzz.execute(b, path, _env(mode), hang_is_failure=True)      # alone and unloaded: 60 s means it never returns
                    if not ok:
                        fails.append((path, v, mode, sig))
                        found = True
                if not found:
                    # no single input fails in a fresh process: the failure needs the HISTORY of conversions in one process (pool re-use
                    # across init/drain cycles, state left behind by an earlier conversion).  Shortest failing prefix -> sequence replay file.
                    lo, hi = 1, len(paths)
                    run = lambda n: subprocess.run([b, '-detect_leaks=0', '-rss_limit_mb=4096', '-timeout=120'] + paths[:n], env=common.san_env(_env(mode)),
                                                   stdout=subprocess.PIPE, stderr=subprocess.PIPE)
                    while lo < hi:
                        mid = (lo + hi) // 2
                        if run(mid).returncode != 0:
                            hi = mid
                        else:
                            lo = mid + 1
                    q = run(lo)
                    if q.returncode != 0:
                        sig = common.san_signature(q.stderr)
                        seq = paths[max(0, lo - 6):lo]
                        if run_paths(b, mode, seq).returncode == 0:
                            seq = paths[:lo]
                        import base64, json
                        rp = os.path.join(os.path.dirname(paths[0]), 'sequence-%s-%s.json' % (mode, v))
                        json.dump({'sequence': True, 'mode': mode, 'variant': v, 'inputs': [base64.b64encode(open(x, 'rb').read()).decode() for x in seq]}, open(rp, 'w'))
                        fails.append((rp, v, mode, (common.sig_str(sig) if sig else 'crash') + ':after-earlier-conversions'))
    return fails


def replay(path):
    """A replay file is a raw fuzz input; its mode is taken from the parent directory name (or tried in turn).  A JSON file with
    "sequence": true holds several inputs that are run in ONE process, in order."""
    try:
        if open(path, 'rb').read(20).lstrip().startswith(b'{"sequence"'):
            return replay_sequence(path)
    except OSError:
        pass
    mode = os.path.basename(os.path.dirname(os.path.abspath(path)))
    if '-' in mode and mode.split('-')[0] in MODES:
        mode = mode.split('-')[0]
    modes = [mode] if mode in MODES else MODES
    bad = False
    for v in VARIANTS:
        for m in modes:
            ok, sig, err = fuzz.execute(binary(v), path, _env(m), hang_is_failure=True)
            if not ok:
                common.violation(PROP, path, '%s variant=%s mode=%s' % (sig, v, m))
                print(err[-3000:])
                bad = True
    if not bad:
        print('replay passes:', path)
    return 1 if bad else 0


def run(tier):
    ev = common.Evidence(PROP, tier)
    ev.rule = RULE
    ev.assumptions = ['text APIs receive NUL-terminated strings (input is cut at the first NUL); ITMZ import receives arbitrary bytes with length',
                      'vendored miniz.c is built with ASan but without UBSan (deliberate unaligned loads)',
                      'timeouts / out-of-memory artifacts of the loaded campaign are noise (counted under inconclusive) unless the input, re-executed alone, still does not finish within 60 s: that is reported as hang@<function>',
                      'critic range arguments are drawn inside the string; language in 0..6; exit() from a writer is counted for C02, not here']
    known = common.Known()
    work = common.scratch_dir('c01')
    for v in VARIANTS:
        binary(v)
    reg = make_regression_inputs(os.path.join(work, 'reg'))
    failures = run_regressions(reg, ev)           # (path, variant, mode, sig)
    ev.evaluations += sum(len(v) for v in reg.values()) * len(VARIANTS)

    od, idr = make_import_seeds(work)
    texts = os.path.join(work, 'seed-texts')
    os.makedirs(texts)
    for p in fuzz.corpus_texts():
        shutil.copy(p, os.path.join(texts, common.sha(p) + '.text'))
    secs = int((45 if tier == 'quick' else 1200) * common.budget_scale())
    max_len = 4096 if tier == 'quick' else 16384
    # 16 workers over 12 campaigns: the convert target gets the extra ones
    forks = {'convert': 3, 'meta': 1, 'critic': 1, 'opml': 1, 'itmz': 1, 'transclude': 1}
    if common.NCPU < 16:
        forks = {m: 1 for m in MODES}
    camps = []
    dct = os.path.join(common.SEEDS, 'dict', 'mmd.dict')
    for v in VARIANTS:
        for m in MODES:
            seeds = [os.path.join(work, 'reg', m)]
            seeds.append(od if m == 'opml' else idr if m == 'itmz' else texts)
            c = fuzz.Campaign(binary(v), '%s-%s' % (m, v), work, seeds, env=_env(m), max_len=max_len, dict_path=dct)
            c.mode, c.variant = m, v
            camps.append(c.start(secs, forks[m], common.seed()))
    if tier == 'thorough':
        # long-input job aimed at fixed-size scratch arrays
        c = fuzz.Campaign(binary('fuzz-nopool'), 'convert-long', work, [os.path.join(work, 'reg', 'convert'), texts], env=_env('convert'),
                          max_len=1 << 18, dict_path=dct, extra=['-use_value_profile=1'])
        c.mode, c.variant = 'convert', 'fuzz-nopool'
        camps.append(c.start(secs, 2, common.seed() + 7))
    for c in camps:
        c.wait()
        ev.evaluations += c.execs
        ev.nontrivial_extra += c.corpus_new
        ev.add_class('execs_%s' % c.name, c.execs)
        ev.add_class('corpus_new_%s' % c.name, c.corpus_new)
        ev.add_class('edges_%s' % c.name, c.cov)
        if c.noise:
            ev.inconclusive.append('%s: %d timeout/oom/slow artifacts (not verdicts)' % (c.name, c.noise))
        cl, unrepro = fuzz.classify_artifacts(c.binary, c.artifacts, _env(c.mode))
        if unrepro:
            ev.inconclusive.append('%s: %d crash artifacts did not reproduce' % (c.name, unrepro))
        for sig, paths in cl.items():
            failures.append((paths[0], c.variant, c.mode, sig))
        # an input that does not finish alone within 60 s (typical: milliseconds) never returns control: a crash by other means
        for sig, paths in fuzz.confirm_hangs(c.binary, c.art, _env(c.mode), limit=2 if tier == 'quick' else 8, secs=60).items():
            failures.append((paths[0], c.variant, c.mode, sig))
            ev.add_class('confirmed_hangs')
        # samples: a few new corpus entries
        new = sorted(f for f in os.listdir(c.corpus) if not f.startswith('seed-'))[:1]
        for f in new:
            data = open(os.path.join(c.corpus, f), 'rb').read()
            ev.sample({'campaign': c.name, 'input_tail_is_trailer': True, 'bytes': common.trunc(data.decode('utf-8', 'replace'), 240)})

    rcode = 0
    seen = set()
    for path, variant, mode, sig in failures:
        k = known.match(PROP, sig)
        if k:
            if sig not in seen:
                common.known_line(PROP, sig, k['what'])
                ev.known_hit.append(sig)
        else:
            ev.violations += 1
            rcode = 1
            if sig not in seen:
                rp = common.save_replay(PROP, os.path.join('%s-%s' % (mode, variant), 'crash-' + common.sha(open(path, 'rb').read())), open(path, 'rb').read()) \
                    if not path.startswith(common.SEEDS) else path
                common.violation(PROP, rp, '%s variant=%s mode=%s' % (sig, variant, mode))
                print(fuzz.detail(binary(variant), rp, _env(mode)))
        seen.add(sig)
    ev.write()
    shutil.rmtree(work, ignore_errors=True)
    print('%s %s: %d executions, %d corpus additions, %d violations' % (PROP, tier, ev.evaluations, ev.nontrivial_extra, ev.violations))
    return rcode
