"""C12 — accepting or rejecting CriticMarkup yields exactly the edited text (E3, model-based)."""
import os
import re
import subprocess

from hypothesis import strategies as st

from lib import hyp, vbuild
from lib.hyp import Violation
from lib.worker import EXT

PROP = 'C12'
RULE = ('Hypothesis-generated edit scripts: Text | Add(items) | Del(items) | Hi(items) | Com(text) | Sub(old,new), depth<=4, text over '
        'letters, blanks, newlines/blank lines, the delimiter characters + - ~ = < > and the escape pairs \\{ \\} \\+ \\- \\~ \\> \\=; '
        'optionally one or two unmatched markers (opener, closer, lone ~>) of kinds not otherwise left open. Oracle: Python string '
        'model of accept/reject on the whole string and on a sub-range covering whole top-level items, idempotence, and (sampled) '
        'CLI -a/-r vs. rendering of the model text, and (single-line scripts over plain words) conversion through the library WITH the accept/reject option vs. conversion of the model text, html/latex/fodt, white space normalised. Also: a run of 990..1500 unmatched openers in front of the script. Non-trivial: >=2 marks with one nested, adjacent to another mark or spanning a '
        'blank line; distinct by serialised text+operation+range.')
ASSUMPTIONS = ['marks nest only inside additions/deletions/highlights (as in the statement); text never contains a bare { or }',
               'the model is the Python code in props/c12.py (independent of critic_markup.c)',
               'CLI leg only for scripts without unmatched markers (so the accepted text contains no CriticMarkup at all)']

CHARS = list('abc  \n+-~=<>.')
ESC = ['\\{', '\\}', '\\+', '\\-', '\\~', '\\>', '\\=']
unit = st.one_of(st.sampled_from(CHARS), st.sampled_from(CHARS), st.sampled_from(ESC), st.just('\n\n'))


def fix_units(us):
    out = []
    for u in us:
        if out and out[-1] == '~' and u.startswith('>'):
            out.append(' ')
        out.append(u)
    return out


text = st.lists(unit, min_size=0, max_size=8).map(fix_units)
OPEN = {'A': '{++', 'D': '{--', 'H': '{==', 'S': '{~~', 'C': '{>>'}
CLOSE = {'A': '++}', 'D': '--}', 'H': '==}', 'S': '~~}', 'C': '<<}'}


def items(depth):
    leaf = st.one_of(text.map(lambda t: ['T', t]), text.map(lambda t: ['T', t]), text.map(lambda t: ['C', t]),
                     st.tuples(text, text).map(lambda p: ['S', p[0], p[1]]))
    if depth == 0:
        return st.lists(leaf, max_size=4)
    sub = items(depth - 1)
    node = st.one_of(leaf, sub.map(lambda x: ['A', x]), sub.map(lambda x: ['D', x]), sub.map(lambda x: ['H', x]))
    return st.lists(node, max_size=5)


def strategy(tier):
    unmatched = st.lists(st.tuples(st.sampled_from(['A', 'D', 'H', 'S', 'C', 'V']), st.booleans(), st.integers(0, 6)), max_size=2,
                         unique_by=lambda t: t[0])
    return st.fixed_dictionaries({'items': items(3), 'unmatched': st.one_of(st.just([]), unmatched),
                                  'range': st.tuples(st.integers(0, 5), st.integers(0, 5)),
                                  # a long run of unmatched openers in front (token_pairs.c changes its search once more than 1000 openers are pending)
                                  'flood': st.one_of(st.just(None), st.just(None), st.just(None), st.tuples(st.sampled_from(['A', 'D', 'H', 'S', 'C']), st.sampled_from([990, 1000, 1001, 1002, 1010, 1100, 1500]))), 'cli': st.integers(0, 19), 'lib': st.integers(0, 5), 'plain': st.sampled_from([False, False, True]),
                                  'fmt': st.sampled_from(['html', 'latex', 'fodt', 'opml', 'beamer'])})


def norm(its):
    """Keep adjacent text items from forming `~>` across their boundary."""
    out = []
    for it in its:
        it = list(it)
        if it[0] in 'ADH':
            it[1] = norm(it[1])
        if it[0] == 'T' and out and out[-1][0] == 'T' and out[-1][1] and out[-1][1][-1] == '~' and it[1] and it[1][0].startswith('>'):
            it[1] = [' '] + list(it[1])
        out.append(it)
    return out


def ser(its):
    out = ''
    for it in its:
        k = it[0]
        if k == 'T':
            out += ''.join(it[1])
        elif k == 'U':
            out += it[1]
        elif k == 'C':
            out += '{>>' + ''.join(it[1]) + '<<}'
        elif k == 'S':
            out += '{~~' + ''.join(it[1]) + '~>' + ''.join(it[2]) + '~~}'
        else:
            out += OPEN[k] + ser(it[1]) + CLOSE[k]
    return out


def model(its, acc):
    out = ''
    for it in its:
        k = it[0]
        if k == 'T':
            out += ''.join(it[1])
        elif k == 'U':
            out += it[1]
        elif k == 'C':
            pass
        elif k == 'S':
            out += ''.join(it[2] if acc else it[1])
        elif k == 'A':
            out += model(it[1], acc) if acc else ''
        elif k == 'D':
            out += '' if acc else model(it[1], acc)
        else:
            out += model(it[1], acc)
    return out


def count_marks(its):
    n = nested = 0
    for it in its:
        if it[0] in 'CS':
            n += 1
        elif it[0] in 'ADH':
            n += 1
            a, b = count_marks(it[1])
            n += a
            nested += a + b
    return n, nested


def plainify(its):
    """The same edit script with every text unit that could take part in other markup (~ < newline) replaced by a letter, and a leading word:
    used for the library-option relation, which is about the marks only."""
    def txt(us):
        return [u if u not in ('~', '<', '>', '\n', '\n\n', '\\~', '\\>') else 'a' for u in us]
    out = []
    for it in its:
        if it[0] in ('T', 'C'):
            out.append([it[0], txt(it[1])])
        elif it[0] == 'S':
            out.append(['S', txt(it[1]), txt(it[2])])
        elif it[0] == 'U':
            out.append(it)
        else:
            out.append([it[0], plainify(it[1])])
    return out


def build(case):
    its = norm(case['items'])
    if case.get('plain'):
        its = [['T', ['w', 'o', 'r', 'd', ' ']]] + plainify(its)
    # unmatched markers at top level; a kind is used only if no two unmatched markers could pair with each other
    for kind, is_open, pos in case.get('unmatched', []):
        m = '~>' if kind == 'V' else (OPEN[kind] if is_open else CLOSE[kind])
        pos = min(pos, len(its))
        # a stray marker directly after text ending in '~' could read as '~>' + ... : keep a blank before it
        its = its[:pos] + [['T', [' ']], ['U', m], ['T', [' ']]] + its[pos:]
    if case.get('flood') and not case.get('unmatched'):
        its = [['U', OPEN[case['flood'][0]] * case['flood'][1]], ['T', [' ']]] + its
    return its


def ws_norm(b):
    b = re.sub(rb'[ \t\r\n]+', b' ', b)
    b = re.sub(rb' ?(</?[A-Za-z][^>]*>) ?', rb'\1', b)       # blanks next to a tag
    b = re.sub(rb' ([.,;:!?}])', rb'\1', b)
    return b.strip()


def check(case, ctx):
    w = ctx.w
    its = build(case)
    src = ser(its)
    if '\x00' in src:
        return
    n_marks, n_nested = count_marks(its)
    unmatched = bool(case.get('unmatched')) or bool(case.get('flood'))
    if case.get('flood') and not case.get('unmatched'):
        ctx.cls('flood_of_unmatched_openers')
    ctx.cls('with_unmatched_marker' if unmatched else 'well_formed_only')
    ctx.cls('marks_%s' % (n_marks if n_marks < 6 else '6+'))
    for acc, op in ((True, 'accept'), (False, 'reject')):
        exp = model(its, acc)
        r = w.critic(op, src)
        got = r[1].decode('utf-8', 'replace')
        if got != exp:
            raise Violation('model:%s:whole' % op, 'src=%r\nexpected=%r\ngot=%r' % (src, exp, got))
        # idempotent
        r2 = w.critic(op, got)[1].decode('utf-8', 'replace')
        if r2 != got:
            raise Violation('idempotence:%s' % op, 'src=%r\nonce=%r\ntwice=%r' % (src, got, r2))
    # sub-range covering whole top-level items i..j
    if its:
        i, j = case['range']
        i = min(i, len(its) - 1)
        j = min(max(i, j), len(its) - 1)
        pre, mid, post = its[:i], its[i:j + 1], its[j + 1:]
        start = len(ser(pre).encode())
        length = len(ser(mid).encode())
        # an unmatched marker inside the range that pairs with one outside is not a case of the statement; `mid` is self-contained
        for acc, op in ((True, 'accept'), (False, 'reject')):
            exp = ser(pre) + model(mid, acc) + ser(post)
            got = w.critic(op, src, start, length)[1].decode('utf-8', 'replace')
            if got != exp:
                raise Violation('model:%s:range' % op, 'src=%r range=(%d,%d)\nexpected=%r\ngot=%r' % (src, start, length, exp, got))
        ctx.cls('range_checked')
    blank = '\n\n' in src
    if n_marks >= 2 and (n_nested or blank or '}{' in src):
        ctx.nontrivial(src)
        ctx.sample(src)
    # library leg: converting WITH the accept / reject option renders what the accepted / rejected text renders to.  The writers resolve the
    # marks themselves on this route (no string pre-pass); blanks left behind by a dropped mark are not part of the statement, so white
    # space is compared in normalised form.
    # (marks that span a line or paragraph break can enclose block-level structure: these are changes that only the string functions can apply, and a paragraph whose whole
    # content is dropped leaves an empty paragraph behind: both are outside this relation)
    if not unmatched and src.strip() and case.get('lib', 0) in (0, 1, 2) and '\n' not in src.strip('\n') and re.match(r'\s*[A-Za-z]', model(its, True)) and re.match(r'\s*[A-Za-z]', model(its, False)) and re.match(r'\s*([A-Za-z]|\{[+=~>-])', src) \
            and not re.search(r'[~<]', model(its, True) + model(its, False)) \
            and not re.search(r'\+\+\+\}|---\}|===\}|~~~\}|<<<\}|\{\+\+\+|\{---|\{===|\{~~~|\{>>>|-\{--|--\}-', src):      # a payload character that merges with its own delimiter (`---}` lexes as a dash + `}`)      # pieces of text that only meet after editing must not form markup of their own (~sub~, <tag>)
        lfmt = ('html', 'latex', 'fodt')[case.get('lib', 0)]
        base = EXT['CRITIC'] | EXT['NOTES'] | EXT['SMART'] | EXT['SNIPPET']
        for acc, bit in ((True, EXT['CRITIC_ACCEPT']), (False, EXT['CRITIC_REJECT'])):
            with_opt = w.convert(src, lfmt, base | bit).out
            edited = w.convert(model(its, acc), lfmt, base).out
            if ws_norm(with_opt) != ws_norm(edited):
                raise Violation('option:%s:%s' % ('accept' if acc else 'reject', lfmt), 'src=%r\nwith the option: %r\nedited text:     %r' % (src, with_opt[-600:], edited[-600:]))
        ctx.cls('library_option_leg_' + lfmt)
    # CLI leg (sampled): -a / -r render what the accepted / rejected text renders to
    if case['cli'] == 0 and not unmatched and src.strip():
        cli = vbuild.cli('asan')
        d = ctx.scratch
        fmt = case['fmt']
        for acc, flag in ((True, '-a'), (False, '-r')):
            f, g = os.path.join(d, 'f.txt'), os.path.join(d, 'g.txt')
            open(f, 'w').write(src)
            open(g, 'w').write(model(its, acc))
            env = dict(os.environ, ASAN_OPTIONS='detect_leaks=0')
            a = subprocess.run([cli, flag, '-t', fmt, f], stdout=subprocess.PIPE, stderr=subprocess.PIPE, env=env)
            b = subprocess.run([cli, '-t', fmt, g], stdout=subprocess.PIPE, stderr=subprocess.PIPE, env=env)
            if a.returncode != 0 or b.returncode != 0:
                raise Violation('cli:crash', 'src=%r flag=%s fmt=%s\n%s\n%s' % (src, flag, fmt, a.stderr[-1500:], b.stderr[-1500:]))
            if a.stdout != b.stdout:
                raise Violation('cli:%s' % flag, 'src=%r fmt=%s\n%s f: %r\nplain g: %r' % (src, fmt, flag, a.stdout[-800:], b.stdout[-800:]))
        ctx.cls('cli_leg_checked')
        # the same through a transcluded file, stdout and batch route: the text-level pass has to see the included text too
        if case['cli'] == 0 and '{{' not in src and fmt in ('html', 'latex'):
            inc, mainf = os.path.join(d, 'inc.txt'), os.path.join(d, 'main.txt')
            open(inc, 'w').write(src)
            open(mainf, 'w').write('{{inc.txt}}\n')
            for acc, flag in ((True, '-a'), (False, '-r')):
                open(g, 'w').write(model(its, acc) + '\n')
                want = subprocess.run([cli, '-t', fmt, g], stdout=subprocess.PIPE, stderr=subprocess.PIPE, env=env).stdout
                got1 = subprocess.run([cli, flag, '-t', fmt, mainf], stdout=subprocess.PIPE, stderr=subprocess.PIPE, env=env).stdout
                subprocess.run([cli, flag, '-b', '-t', fmt, mainf], stdout=subprocess.PIPE, stderr=subprocess.PIPE, env=env)
                outb = os.path.join(d, 'main' + ('.html' if fmt == 'html' else '.tex'))
                got2 = open(outb, 'rb').read() if os.path.exists(outb) else None
                for name, got in (('stdout', got1), ('-b', got2)):
                    if got is None or ws_norm(got) != ws_norm(want):
                        raise Violation('cli-transcluded:%s:%s' % (flag, name), 'src=%r fmt=%s\n%s of a file that transcludes the text: %r\nplain rendering of the edited text: %r' % (src, fmt, name, (got or b'')[-500:], want[-500:]))
                if os.path.exists(outb):
                    os.unlink(outb)
            ctx.cls('cli_transcluded_leg_checked')


def prebuild():
    vbuild.cli('asan')


def run(tier):
    return hyp.run(__import__('props.c12', fromlist=['x']), tier, quick_s=25, thorough_s=600)


def replay(path):
    return hyp.replay(__import__('props.c12', fromlist=['x']), path)
