"""C13 — transclusion terminates on any include graph and substitutes exactly (E3, model-based)."""
import os
import shutil
import subprocess

from hypothesis import strategies as st

from lib import hyp, vbuild
from lib.hyp import Violation
from lib.worker import WorkerTimeout, FMT

PROP = 'C13'
RULE = ('Hypothesis-generated include graphs over <=6 files in a fresh directory tree (root, sub/, sub/deep/): each file = optional '
        'metadata (optionally `transclude base` in {., sub, sub/, .., deep, absolute dir}) + body segments with markers {{target}} '
        'written relative to the root, relative to the file\'s own directory, absolute, with `..` components, as wildcard `.*`, missing, '
        '{{TOC}}, over-long (>1000 bytes) or unterminated; edges in any direction (trees, DAGs with sharing, self loops, cycles). Oracle: '
        '(1) always: the call returns within the CPU budget with bounded output; (2) when no file is reached through itself (acyclic by '
        'real path): result == reference expansion written from the documentation; (3) manifest: no duplicates, exactly the existing '
        'files visited (missing targets optional). Files may carry YAML-fenced metadata and CRLF line endings; zero-byte files exist; the manifest is asked twice on one DString / engine (same list, text unchanged); the CLI leg includes the batch route with a bare file name from inside its folder. Non-trivial: >=3 files and sharing, a cycle, or a transclude-base override below the '
        'top level; distinct by file map + format.')
ASSUMPTIONS = ['paths are composed textually and resolved by the file system (never normalised lexically); `transclude base` names existing directories',
               'markers never name a directory; source_path always contains a directory part',
               'for cyclic graphs only termination and bounded size are asserted (the statement fixes no content)',
               'a 20 s timeout is the non-termination signal (typical case < 10 ms) and is re-confirmed with 60 s before it is reported; such a failure is not shrunk']

EXT_FOR = {'html': '.html', 'epub': '.html', 'latex': '.tex', 'beamer': '.tex', 'memoir': '.tex', 'fodt': '.fodt', 'odt': '.fodt',
           'opml': '.txt', 'itmz': '.txt', 'bundlezip': '.txt', 'mmd': None}
DIRS = ['', 'sub/', 'sub/deep/']

seg = st.sampled_from(['text ', 'line\n', '\n\n', '& <x> ', 'para *em* ', '{ not a marker } ', '} } { ', '中文 '])
marker = st.one_of(
    st.tuples(st.just('file'), st.integers(0, 5), st.sampled_from(['eff', 'eff', 'eff', 'root', 'own', 'abs', 'bare', 'dotdot'])),
    st.tuples(st.just('file'), st.integers(0, 5), st.sampled_from(['eff', 'eff', 'eff', 'root', 'own', 'abs', 'bare', 'dotdot'])),
    st.tuples(st.just('file'), st.integers(0, 5), st.sampled_from(['eff', 'eff', 'eff', 'root', 'own', 'abs', 'bare', 'dotdot'])),
    st.tuples(st.just('file'), st.integers(0, 5), st.sampled_from(['eff', 'eff', 'abs'])),
    st.tuples(st.just('file'), st.integers(0, 5), st.sampled_from(['eff', 'eff', 'own'])),
    st.tuples(st.just('missing'), st.integers(0, 3), st.just('')),
    st.tuples(st.just('toc'), st.just(0), st.just('')),
    st.tuples(st.just('wild'), st.integers(0, 2), st.sampled_from(['root', 'bare'])),
    st.tuples(st.just('long'), st.integers(990, 1100), st.just('')),
    st.tuples(st.just('stray'), st.integers(990, 1100), st.just('')),
    st.tuples(st.just('tocfile'), st.integers(0, 2), st.just('')),               # a file whose name merely begins with the letters TOC          # an opener that is never closed itself, far before the next real marker
    st.tuples(st.just('file'), st.integers(0, 5), st.just('wild')),             # a case file named through the wildcard extension (cycles through .* markers)
    st.tuples(st.just('file'), st.integers(0, 5), st.just('wild')),
    st.tuples(st.just('shared'), st.integers(0, 1), st.just('')),
    st.tuples(st.just('empty'), st.integers(0, 1), st.just('')),               # a file of zero bytes exists: its marker is replaced (by nothing)
)
part = st.one_of(seg.map(lambda s: ['t', s]), marker.map(lambda m: ['m'] + list(m)), marker.map(lambda m: ['m'] + list(m)))
filest = st.fixed_dictionaries({
    'dir': st.integers(0, 2),
    'meta': st.sampled_from([None, None, [], ['.'], ['sub'], ['sub/'], ['..'], ['deep'], ['ABS0'], ['ABS1']]),
    'parts': st.lists(part, min_size=1, max_size=6),
    'tail': st.sampled_from(['end\n', 'end', '', '{{', '\n']),
    'mstyle': st.sampled_from([0, 0, 0, 1, 2, 3]),      # metadata plain / YAML-fenced, file with LF / CRLF line endings
})


def strategy(tier):
    return st.fixed_dictionaries({
        'files': st.lists(filest, min_size=2, max_size=6),
        'acyclic': st.booleans(),
        'fmt': st.sampled_from(['html', 'latex', 'fodt', 'opml', 'mmd', 'beamer', 'epub']),
        'search': st.sampled_from(['dir', 'dir/', 'other', 'dir', 'null']),
        'cli': st.integers(0, 11),
    })


class Cyclic(Exception):
    pass


def _target(case, i, a, n):
    j = a % n
    if case['acyclic'] and j <= i:
        j = i + 1 + (a % max(1, n - i - 1)) if i + 1 < n else None
    return j


def _base_of(f, root):
    if not f['meta']:
        return None
    b = f['meta'][-1]
    if b == 'ABS0':
        return root + '/'
    if b == 'ABS1':
        return root + '/sub'
    own = os.path.join(root, DIRS[f['dir']])
    if not os.path.isdir(os.path.join(own, b)):
        b = '.'
    return b


def materialise(case, root, search):
    """Writes the tree; returns {relpath: (meta_text, body_text)}."""
    shutil.rmtree(root, ignore_errors=True)
    os.makedirs(os.path.join(root, 'sub', 'deep'))
    files = {}
    n = len(case['files'])
    names = ['%sf%d.txt' % (DIRS[f['dir']], i) for i, f in enumerate(case['files'])]
    # effective search folder of each file when first reached along the intended edges (used to spell markers that resolve)
    eff = {}
    def folder_for(i, inherited):
        b = _base_of(case['files'][i], root)
        if b is None:
            return inherited
        return b if b.startswith('/') else os.path.join(root, DIRS[case['files'][i]['dir']]) + '/' + b
    eff[0] = folder_for(0, search)
    queue = [0]
    while queue:
        i = queue.pop(0)
        for p in case['files'][i]['parts']:
            if p[0] == 'm' and p[1] == 'file':
                j = _target(case, i, p[2], n)
                if j is not None and j not in eff:
                    eff[j] = folder_for(j, eff[i])
                    queue.append(j)
    # fixed extras: wildcard family in every directory with different contents, and one name that exists only in some directories
    for d in DIRS:
        for e in ('.html', '.tex', '.fodt', '.txt'):
            files['%swild0%s' % (d, e)] = ('', 'WILD0 %s %s\n' % (e, d))
    for e in ('.html', '.tex', '.txt'):
        files['wild1' + e] = ('', 'WILD1 %s root only\n' % e)
    files['TOCnotes.txt'] = ('', 'TOCNOTES root {{shared1.txt}}\n')
    files['TOC-appendix.txt'] = ('', 'TOC APPENDIX root\n')
    files['sub/TOC2.txt'] = ('', 'TOC2 sub\n')
    files['empty0.txt'] = ('', '')
    files['sub/empty1.txt'] = ('', '')
    files['shared0.txt'] = ('', 'SHARED0 root {{shared1.txt}}\n')
    files['sub/shared1.txt'] = ('', 'SHARED1 sub\n')
    for i, f in enumerate(case['files']):
        meta = ''
        if f['meta'] is not None:
            meta = 'Title: t%d\n' % i
            if f['meta']:
                meta += 'transclude base: %s\n' % _base_of(f, root)
        body = 'seg%d ' % i     # first line of a file without metadata can never look like `key: value`
        for p in f['parts']:
            if p[0] == 't':
                body += p[1]
                continue
            kind, a, style = p[1], p[2], p[3]
            if kind == 'file':
                j = _target(case, i, a, n)
                if j is None:
                    body += '{{nothing.txt}}'
                    continue
                tgt = names[j]
                if style == 'eff':
                    mk = os.path.relpath(os.path.join(root, tgt), os.path.normpath(eff.get(i, root)))
                elif style == 'root':
                    mk = tgt
                elif style == 'own':
                    mk = os.path.relpath(os.path.join('/R', tgt), os.path.join('/R', DIRS[f['dir']]))
                elif style == 'abs':
                    mk = os.path.join(root, tgt)
                elif style == 'wild':
                    mk = os.path.relpath(os.path.join(root, tgt), os.path.normpath(eff.get(i, root)))[:-4] + '.*'
                elif style == 'bare':
                    mk = os.path.basename(tgt)
                else:
                    mk = 'sub/../' + tgt
                body += '{{' + mk + '}}'
            elif kind == 'missing':
                body += '{{missing%d.txt}}' % a
            elif kind == 'toc':
                body += '{{TOC}}'
            elif kind == 'tocfile':
                body += ('{{TOCnotes.txt}}', '{{TOC-appendix.txt}}', '{{sub/TOC2.txt}}')[a % 3]
            elif kind == 'wild':
                body += '{{wild%d.*}}' % (a % 2) if style == 'root' else '{{sub/wild%d.*}}' % (a % 2)
            elif kind == 'long':
                body += '{{' + 'x' * a + '}}'
            elif kind == 'stray':
                body += '{{ ' + 'y ' * (a // 2) + ' '
            elif kind == 'shared':
                body += '{{shared%d.txt}}' % a
            elif kind == 'empty':
                body += '{{empty%d.txt}}' % a
        body += f['tail']
        ms = f.get('mstyle', 0)
        if meta and ms in (1, 3):
            meta = '---\n' + meta + '---\n'
        body = ('\n' if meta else '') + body
        if ms in (2, 3):
            meta, body = meta.replace('\n', '\r\n'), body.replace('\n', '\r\n')
        files[names[i]] = (meta, body)
        for e in ('.html', '.tex', '.fodt'):
            files[names[i][:-4] + e] = files[names[i]]
    for rel, (m, b) in files.items():
        with open(os.path.join(root, rel), 'w', encoding='utf-8', newline='') as fh:
            fh.write(m + b)
    return names, files


def model_expand(root, files, rel, search_path, source_path, fmt, anc_text, anc_real, visited, top=False, skip_cycles=False):
    """Reference expansion written from the documentation.  Raises Cyclic if a file is reached through itself."""
    meta, body = files[rel]
    sf = None if not search_path else (search_path if search_path.endswith('/') else search_path + '/')
    for line in meta.splitlines():
        if line.lower().startswith('transclude base:'):
            base = line.split(':', 1)[1].strip()
            if base.startswith('/'):
                sf = base
            else:
                d = source_path[:source_path.rfind('/') + 1]
                sf = d + base
    if sf is None:
        # neither a search path nor a transclude base: nowhere to look, the text stays as it is
        return (meta + body) if top else body
    out = ''
    pos = 0
    scan = 0
    while True:
        start = body.find('{{', scan)
        if start < 0:
            break
        stop = body.find('}}', start)
        if stop < 0:
            break
        blen = len(body[start:stop].encode('utf-8'))
        text = body[start + 2:stop]
        if blen >= 1000:
            scan = start + 2
            continue
        if text == 'TOC':
            scan = stop
            continue
        path = text if text.startswith('/') else (sf if sf.endswith('/') else sf + '/') + text
        if len(text.encode()) >= 2 and fmt != 'mmd' and text.endswith('.*'):
            path = path[:-2] + EXT_FOR[fmt]
        if path in anc_text:
            scan = start + 2
            continue
        if os.path.isfile(path):
            real = os.path.realpath(path)
            if real in anc_real:
                if skip_cycles:
                    scan = start + 2      # documented guard: a file that is being transcluded further up is not transcluded again
                    continue
                raise Cyclic()
            crel = os.path.relpath(real, os.path.realpath(root))
            visited.add(real)
            child = model_expand(root, files, crel, sf, path, fmt, anc_text + [path], anc_real + [real], visited, skip_cycles=skip_cycles)
            out += body[pos:start] + child
            pos = stop + 2
            scan = stop + 2
        else:
            scan = start + 2
    out += body[pos:]
    return (meta + out) if top else out


def check(case, ctx):
    root = os.path.join(ctx.scratch, 'tree')
    fmt = case['fmt']
    top_rel = '%sf0.txt' % DIRS[case['files'][0]['dir']]
    top_path = os.path.join(root, top_rel)
    top_dir = os.path.dirname(top_path)
    search = {'dir': top_dir, 'dir/': top_dir + '/', 'other': os.path.join(root, 'sub'), 'null': ''}[case['search']]      # '' is passed as a NULL search path
    names, files = materialise(case, root, search)
    src = files[top_rel][0] + files[top_rel][1]
    # model
    visited = set()
    real_top = os.path.realpath(top_path)
    try:
        exp = model_expand(root, files, top_rel, search, top_path, fmt, [], [real_top], visited, top=True)
        cyclic = False
    except Cyclic:
        exp, cyclic = None, True
    except RecursionError:
        exp, cyclic = None, True
    ctx.cls('cyclic' if cyclic else 'acyclic')
    ctx.cls('fmt_' + fmt)
    w = ctx.w
    try:
        r = w.call_timeout(20, 'transclude', FMT[fmt], search, top_path, src)
    except WorkerTimeout:
        try:
            w.call_timeout(60, 'transclude', FMT[fmt], search, top_path, src)
            ctx.cls('slow_but_terminated_within_60s')
            return
        except WorkerTimeout:
            raise Violation('termination:timeout', 'transclusion did not return within 60 s (typical: < 10 ms)', noshrink=True)
    got = r[1].decode('utf-8', 'surrogateescape')
    manifest = [m for m in r[2].decode('utf-8', 'surrogateescape').split('\n') if m]
    if len(got.encode('utf-8', 'surrogateescape')) > 16 * 1024 * 1024:
        raise Violation('termination:unbounded-output', 'output of %d bytes' % len(got))
    if 'LENGTH-MISMATCH' in got:
        raise Violation('result:length-mismatch', got[-200:])
    n_base = sum(1 for i, f in enumerate(case['files'][1:]) if f['meta'])
    shared = False
    if not cyclic:
        if got != exp:
            raise Violation('model:content', 'fmt=%s search=%r top=%s\nexpected=%r\ngot=%r\nfiles=%r' % (fmt, search, top_rel, exp, got, {k: v for k, v in files.items() if k in names}))
        # manifest
        if len(set(manifest)) != len(manifest):
            raise Violation('manifest:duplicate', repr(manifest))
        mreal = set(os.path.realpath(m) for m in manifest if os.path.isfile(m))
        if mreal != visited:
            raise Violation('manifest:set', 'manifest %r\nvisited %r' % (sorted(mreal), sorted(visited)))
        # every manifest entry was named by some marker: it is either a visited file or a non-existing path
        # second API family must agree
        fam = ['s', 'd', 'e'][case['cli'] % 3]
        mr = w.call('manifest', fam, search, top_path, src)
        m2 = [m for m in mr[1].decode('utf-8', 'surrogateescape').split('\n') if m]
        # listing is not transcluding: the object keeps its text, and asking again gives the same list
        if mr[2] != mr[1]:
            raise Violation('manifest:second-call-differs', 'family %s: %r then %r' % (fam, mr[1], mr[2]))
        if mr[3].decode('utf-8', 'surrogateescape') != src:
            raise Violation('manifest:source-modified', 'family %s: the text held by the caller changed\nbefore=%r\nafter=%r' % (fam, src, mr[3]))
        if fmt in ('html',) and m2 != manifest:
            raise Violation('manifest:family-disagree', '%r vs %r' % (m2, manifest))
        ctx.cls('manifest_checked')
    else:
        # cyclic: termination was just observed; the size must stay in proportion to the expansion that respects the recursion guard
        try:
            # (the guard is a stack of the files being transcluded; the top document itself was not transcluded by anybody, so it can be
            # pulled in once more through a marker before the guard sees it)
            guarded = model_expand(root, files, top_rel, search, top_path, fmt, [], [], set(), top=True, skip_cycles=True)
            limit = 4 * len(guarded.encode('utf-8', 'surrogateescape')) + 64 * 1024
            if len(got.encode('utf-8', 'surrogateescape')) > limit:
                raise Violation('termination:output-out-of-proportion', 'cyclic include graph: output of %d bytes, the guard-respecting expansion has %d bytes\nfiles=%r'
                                % (len(got), len(guarded), {k: v for k, v in files.items() if k in names}))
            ctx.cls('cyclic_size_checked')
        except RecursionError:
            pass
    ctx.cls('visited_%d' % min(len(visited), 6))
    if len(case['files']) >= 3 and (cyclic or n_base or len(visited) >= 3):
        ctx.nontrivial(repr(sorted(files.items())) + fmt + case['search'])
        ctx.sample({'top': top_rel, 'fmt': fmt, 'cyclic': cyclic, 'files': {k: files[k][0] + files[k][1] for k in names}})
    # CLI leg (sampled): single file argument, absolute and relative, must give the same text for -t mmd (transclusion only)
    cli_ok = case['cli'] == 0 and not cyclic and fmt in ('html', 'latex', 'mmd', 'fodt')
    if cli_ok:
        try:    # the CLI searches from the file's own directory, which may turn the graph cyclic
            model_expand(root, files, top_rel, top_dir, top_path, fmt, [], [real_top], set(), top=True)
        except (Cyclic, RecursionError):
            cli_ok = False
    if cli_ok:
        cli = vbuild.cli('asan')
        env = dict(os.environ, ASAN_OPTIONS='detect_leaks=0')
        if fmt == 'mmd':
            # -t mmd prints the transcluded source itself (wildcards use the MMD rule)
            for arg, cwd in ((top_path, None), (os.path.basename(top_path), top_dir)):
                p = subprocess.run([cli, '-t', 'mmd', arg], stdout=subprocess.PIPE, stderr=subprocess.PIPE, env=env, cwd=cwd, timeout=120)
                exp_cli = model_expand(root, files, top_rel, top_dir, top_path, 'mmd', [], [real_top], set(), top=True)
                out = p.stdout.decode('utf-8', 'surrogateescape')
                if p.returncode != 0 or out != exp_cli:
                    raise Violation('cli:mmd', 'arg=%r rc=%d\nexpected=%r\ngot=%r\nstderr=%r' % (arg, p.returncode, exp_cli, out, p.stderr[-600:]))
        else:
            # rendering the file == rendering the expanded text given on stdin (no file argument => no transclusion)
            exp_cli = model_expand(root, files, top_rel, top_dir, top_path, fmt, [], [real_top], set(), top=True)
            a = subprocess.run([cli, '-t', fmt, top_path], stdout=subprocess.PIPE, stderr=subprocess.PIPE, env=env, timeout=120)
            b = subprocess.run([cli, '-t', fmt], input=exp_cli.encode('utf-8', 'surrogateescape'), stdout=subprocess.PIPE, stderr=subprocess.PIPE, env=env, timeout=120)
            if a.returncode != 0 or a.stdout != b.stdout:
                raise Violation('cli:render', 'fmt=%s rc=%d\nfile: %r\nstdin: %r' % (fmt, a.returncode, a.stdout[-600:], b.stdout[-600:]))
            # the batch route, with the bare file name from inside its folder (the including file's folder is then the empty string)
            if fmt in ('html', 'latex'):
                bn = os.path.basename(top_path)
                outp = os.path.join(top_dir, (bn[:bn.rindex('.')] if '.' in bn else bn) + {'html': '.html', 'latex': '.tex'}[fmt])
                prior = open(outp, 'rb').read() if os.path.exists(outp) else None
                c = subprocess.run([cli, '-b', '-t', fmt, bn], stdout=subprocess.PIPE, stderr=subprocess.PIPE, env=env, cwd=top_dir, timeout=120)
                got = open(outp, 'rb').read() if os.path.exists(outp) else None
                if prior is None:
                    if got is not None:
                        os.unlink(outp)
                else:
                    open(outp, 'wb').write(prior)
                if c.returncode != 0 or got != b.stdout:
                    raise Violation('cli:render:-b', 'fmt=%s rc=%d bare name %r in its folder\n-b: %r\nstdin: %r' % (fmt, c.returncode, bn, (got or b'')[-600:], b.stdout[-600:]))
                # ... and as the SECOND file of a batch whose first file lives in another folder: every file is resolved against its own folder
                dd = os.path.join(ctx.scratch, 'decoy-folder')
                os.makedirs(dd, exist_ok=True)
                open(os.path.join(dd, 'decoy.txt'), 'w').write('transclude base: .\n\ndecoy text {{nothing-here.txt}}\n')
                prior = open(outp, 'rb').read() if os.path.exists(outp) else None
                c2 = subprocess.run([cli, '-b', '-t', fmt, os.path.join(dd, 'decoy.txt'), top_path], stdout=subprocess.PIPE, stderr=subprocess.PIPE, env=env, cwd=top_dir, timeout=120)
                got2 = open(outp, 'rb').read() if os.path.exists(outp) else None
                if prior is None:
                    if got2 is not None:
                        os.unlink(outp)
                else:
                    open(outp, 'wb').write(prior)
                if c2.returncode != 0 or got2 != b.stdout:
                    raise Violation('cli:render:-b-second-of-two', 'fmt=%s rc=%d\n-b (second file): %r\nstdin: %r' % (fmt, c2.returncode, (got2 or b'')[-600:], b.stdout[-600:]))
                ctx.cls('cli_batch_leg_checked')
        ctx.cls('cli_leg_checked')


def prebuild():
    vbuild.cli('asan')


def run(tier):
    return hyp.run(__import__('props.c13', fromlist=['x']), tier, quick_s=25, thorough_s=600, chunk=150)


def replay(path):
    return hyp.replay(__import__('props.c13', fromlist=['x']), path)
