"""C15 — the exposed token tree is structurally sound and stays inside the source (E1 target fz_c15, pool on and off)."""
import os
import re
import shutil

from lib import common, fuzz, vbuild

PROP = 'C15'
RULE = ('coverage-guided byte mutation from the corpus; trailer selects extension bits, whole-string or in-range sub-string parse, and which '
        'of the 7 writers (or all in turn) export the tree afterwards. In-target walker (iterative, visited-pointer set) checks I1 root '
        'type/siblings/span, I2 every token inside the source, I3 prev/next consistency, I4 non-decreasing sibling starts, I5 mate symmetry, '
        'I6 finiteness (no pointer twice), I7 type < kMaxTokenTypes -- after parsing and again after each export; plus three evaluated '
        'constant relations between the published enum ranges. Non-trivial: tree of depth>=3 with >=1 mated pair, distinct by input hash '
        '(counted in-target per worker; lower bound = corpus additions).')
VARIANTS = ['fuzz', 'fuzz-nopool']


def parser_max():
    mx = 0
    for line in open(os.path.join(vbuild.REPO, 'src', 'parser.h')):
        m = re.match(r'\s*#define\s+\w+\s+(\d+)', line)
        if m:
            mx = max(mx, int(m.group(1)))
    return mx


def binary(variant):
    return vbuild.harness('fz_c15', variant, ['fz_c15.cpp'], extra=['-fsanitize=fuzzer', '-Wl,--wrap=exit', '-DPARSER_H_MAX=%d' % parser_max()])


def prebuild():
    for v in VARIANTS:
        binary(v)


def replay(path):
    bad = False
    for v in VARIANTS:
        ok, sig, err = fuzz.execute(binary(v), path)
        if not ok:
            common.violation(PROP, path, '%s variant=%s' % (sig, v))
            print(err[-2500:])
            bad = True
    if not bad:
        print('replay passes:', path)
    return 1 if bad else 0


def run(tier):
    ev = common.Evidence(PROP, tier)
    ev.rule = RULE
    ev.assumptions = ['child-inside-parent containment and `tail` correctness are not asserted (not promised; writers widen child spans)',
                      'the enum-range relations are single evaluated facts, not a generated search',
                      'sub-string spans are drawn inside the string; OPML/ITMZ/transclude bits are masked (they replace the source)']
    known = common.Known()
    work = common.scratch_dir('c15')
    texts = os.path.join(work, 'seed-texts')
    os.makedirs(texts)
    for p in fuzz.corpus_texts():
        shutil.copy(p, os.path.join(texts, common.sha(p) + '.text'))
    regress = os.path.join(common.SEEDS, PROP)
    secs = int((40 if tier == 'quick' else 900) * common.budget_scale())
    camps = []
    for v in VARIANTS:
        cnt = os.path.join(work, 'counts-%s.txt' % v)
        c = fuzz.Campaign(binary(v), v, work, [texts, regress], env={'FZ_COUNTS': cnt}, max_len=4096 if tier == 'quick' else 16384,
                          dict_path=os.path.join(common.SEEDS, 'dict', 'mmd.dict'))
        c.variant, c.counts = v, cnt
        camps.append(c.start(secs, max(1, common.NCPU // 2), common.seed()))
    failures = []
    # committed regressions
    if os.path.isdir(regress):
        for f in sorted(os.listdir(regress)):
            for v in VARIANTS:
                ok, sig, _ = fuzz.execute(binary(v), os.path.join(regress, f))
                ev.add_class('regression_replays')
                ev.evaluations += 1
                if not ok:
                    failures.append((sig, os.path.join(regress, f), v))
    for c in camps:
        c.wait()
        ev.evaluations += c.execs
        ev.add_class('execs_' + c.name, c.execs)
        ev.add_class('corpus_new_' + c.name, c.corpus_new)
        ev.add_class('edges_' + c.name, c.cov)
        ev.nontrivial_extra += c.corpus_new
        if os.path.exists(c.counts):
            vals = [int(x) for x in open(c.counts).read().split()]
            ev.add_class('in_target_nontrivial_%s(sum over fork jobs; depth>=3 and a mated pair)' % c.name, sum(vals))
        if c.noise:
            ev.inconclusive.append('%s: %d timeout/oom artifacts (not verdicts)' % (c.name, c.noise))
        cl, unrepro = fuzz.classify_artifacts(c.binary, c.artifacts)
        if unrepro:
            ev.inconclusive.append('%s: %d artifacts did not reproduce' % (c.name, unrepro))
        for sig, paths in cl.items():
            failures.append((sig, paths[0], c.variant))
        for f in sorted(x for x in os.listdir(c.corpus) if not x.startswith('seed-'))[:2]:
            ev.sample({'variant': c.name, 'input': common.trunc(open(os.path.join(c.corpus, f), 'rb').read().decode('utf-8', 'replace'), 240)})
    rcode = 0
    seen = set()
    for sig, path, v in failures:
        k = known.match(PROP, sig)
        if k:
            if sig not in seen:
                common.known_line(PROP, sig, k['what'])
                ev.known_hit.append(sig)
        else:
            ev.violations += 1
            rcode = 1
            if sig not in seen:
                rp = path if path.startswith(common.SEEDS) else common.save_replay(PROP, 'c15-' + common.sha(open(path, 'rb').read()), open(path, 'rb').read())
                common.violation(PROP, rp, '%s variant=%s' % (sig, v))
                print(fuzz.detail(binary(v), rp))
        seen.add(sig)
    ev.write()
    shutil.rmtree(work, ignore_errors=True)
    print('%s %s: %d executions, %d corpus additions, %d violations' % (PROP, tier, ev.evaluations, ev.nontrivial_extra, ev.violations))
    return rcode
