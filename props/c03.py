"""C03 — HTML rendering agrees with the documented semantics; rendering is compositional (E3: model-based + metamorphic)."""
import re

from hypothesis import strategies as st

from lib import hyp
from lib.hyp import Violation
from lib.worker import EXT
from pbt import gdoc, htmlmodel

PROP = 'C03'
RULE = ('(a) model-based: G-doc ASTs (safe text policy) over the constructs the statement names -- paragraphs, ATX/Setext headings with ids, '
        'emphasis/strong, code spans, fenced and indented code, block quotes, tight/loose/nested bulleted and numbered lists, rules, hard breaks, '
        'inline and automatic links with titles, images and figures, backslash escapes, entities, bare & < >, smart punctuation, and (MMD mode) '
        'tables with alignment, footnotes, definition lists, math, super/subscript -- serialised in varying concrete spellings (markers * + -, '
        'closing #, */_ emphasis, title quote style, two-space or backslash breaks, final newline or not), rendered in MMD and compatibility mode '
        'with smart typography on and off, and compared BYTE FOR BYTE with a reference renderer written from the documentation and the stored '
        'expected files. (b) compositional: for 2..8 blocks from {paragraph, ATX/Setext heading, rule, fenced code, indented code, block quote} '
        'that do not refer to one another, render(b1..bn) == render(b1) + blank line + ... + render(bn). Also: a manual label on the last heading (optionally as the last bytes of the source), tables written without their outer pipes, and the CRLF spelling of code-free sources (must render like the LF spelling). Non-trivial: (a) AST with >=2 block kinds '
        'or inline nesting depth >=2, (b) >=3 blocks of >=2 kinds; distinct by serialised source.')
ASSUMPTIONS = ['only unambiguous uses are generated (rules listed in pbt/gdoc.py: adjacency of lists/indented code, emphasis delimiters touching words, '
               'no heading-like or metadata-like first line, code lines inside quotes without leading blanks)',
               'the reference renderer is pbt/htmlmodel.py; constructs it does not model are not generated (reported under classes.not_modelled)',
               'reference links with a parenthesised title, raw HTML, citations/glossaries/abbreviations, lists nested deeper than one level are not modelled']

LEAD = st.sampled_from([0, 0, 0, 1, 2, 3])
# reference labels: some equal the words headings are made of, so that a heading's automatic label collides with an explicit definition
# (documented: the explicit definition wins)
REFIDS = st.sampled_from(['ref1', 'Ref Two', 'r-3', 'alpha', 'bravo', 'Charlie'])
CFG_MMD = gdoc.Cfg(inlines=['t', 'em', 'st', 'code', 'link', 'reflink', 'auto', 'img', 'esc', 'ent', 'bare', 'smart', 'fnref', 'imath', 'sup'],
                   blocks=['para', 'atx', 'setext', 'hr', 'fence', 'icode', 'quote', 'list', 'table', 'deflist', 'figure', 'math'],
                   lead=LEAD, sublists=True, refids=REFIDS, cell_inlines=['t', 'em', 'code', 'smart', 'esc', 'ent'], cell_pad=st.sampled_from([True, True, 'open']),
                   heading_inlines=['t', 'em', 'st', 'code', 'smart', 'esc', 'ent', 'link'])
CFG_COMPAT = gdoc.Cfg(inlines=['t', 'em', 'st', 'code', 'link', 'reflink', 'auto', 'img', 'esc', 'ent', 'bare'],
                      blocks=['para', 'atx', 'setext', 'hr', 'icode', 'quote', 'list'], lead=LEAD, sublists=True, refids=REFIDS,
                      heading_inlines=['t', 'em', 'st', 'code', 'esc', 'ent', 'link'])
CFG_COMP = gdoc.Cfg(inlines=['t', 'em', 'st', 'code', 'link', 'esc', 'smart'], blocks=['para', 'atx', 'setext', 'hr', 'fence', 'icode', 'quote'], max_blocks=8)
NOT_MODELLED = ['reference images, parenthesised reference titles', 'raw HTML', 'citations', 'glossary', 'abbreviations', 'captions on tables', 'metadata variables', '{{TOC}}']


def strategy(tier):
    return st.one_of(
        st.fixed_dictionaries({'kind': st.just('model'), 'doc': gdoc.document(CFG_MMD), 'smart': st.booleans(), 'compat': st.just(False),
                               'collide': st.sampled_from([0, 0, 1, 2]), 'nolabels': st.sampled_from([False, False, False, True]), 'mlabel': st.sampled_from([0, 1, 2, 2]), 'crlf': st.sampled_from([False, False, True]), 'capline': st.booleans(), 'colspan': st.sampled_from([0, 0, 1, 2, 3])}),
        st.fixed_dictionaries({'kind': st.just('model'), 'doc': gdoc.document(CFG_COMPAT), 'smart': st.booleans(), 'compat': st.just(True), 'crlf': st.sampled_from([False, False, True])}),
        st.fixed_dictionaries({'kind': st.just('comp'), 'doc': gdoc.document(CFG_COMP), 'smart': st.booleans(), 'compat': st.booleans()}),
    )


KEYLINE = re.compile(r'^[A-Za-z0-9][A-Za-z0-9_ \t.\-]*:')


def unify_angles(node, state, allow):
    """A bare `<` and a later bare `>` in one block are read as ONE angle-bracket pair (inline HTML / autolink syntax) even when what is between
    them is no tag, and emphasis cannot pair across it (known finding C03 angle-pair).  Only one of the two kinds is written bare in a document;
    the other is written as its backslash escape (same documented rendering)."""
    if isinstance(node, list):
        if len(node) == 2 and node[0] == 'bare' and node[1] in '<>':
            if state[0] in (None, node[1]) or allow:
                state[0] = node[1]
                return node
            state[1] += 1
            return ['esc', node[1]]
        if len(node) >= 3 and node[0] == 'imath' and '<' in node[2] and not allow:
            if state[0] in (None, '<'):
                state[0] = '<'
        return [unify_angles(x, state, allow) for x in node]
    return node


def normalise(doc, compat, allow_known=False, collide=0):
    """Generator rules that separate unambiguous documented use from the rest (each one a documented precedence)."""
    d = dict(doc)

    def fix(bs, top=True):
        out = []
        for b in bs:
            if b[0] == 'atx' and len(b) > 4 and not top:
                b = list(b[:4]) + [0]      # marker indentation only at the left margin of the document (inside a quote it would add up with the quote's own blank)
            if b[0] == 'figure' and compat:
                b = ['para', [[['img', b[1], b[2], b[3]]]], 'nl']
            if b[0] == 'para':
                # a paragraph that consists of a single image is a figure in MMD mode: keep images inline by leading with a word
                lines = []
                for l in b[1]:
                    if len(l) == 1 and l[0][0] == 'img' and len(b[1]) == 1:
                        l = [['t', 'see']] + l
                    lines.append(l)
                b = ['para', lines, b[2]]
            elif b[0] == 'quote':
                b = ['quote', fix(b[1], False)] + list(b[2:])
            elif b[0] == 'sublist':
                b = ['sublist', fix([b[1]], False)[0], b[2]]
            elif b[0] == 'list':
                items = [[first, fix(rest, False)] for first, rest in b[4]]
                lead = b[5] if len(b) > 5 else 0
                if any(rest for _, rest in items) or not top:
                    lead = 0       # an indented marker plus indented continuation lines: the nesting would be a matter of interpretation
                b = list(b[:4]) + [items, lead]
            out.append(b)
        return out
    out = fix(list(d['blocks']))
    # a heading whose automatic label equals an explicitly defined reference label: the explicit definition wins (documented precedence)
    words = [r[0] for r in (d.get('defs') or []) if r[0].lower() in ('alpha', 'bravo', 'charlie')]
    if collide and words and not compat:
        h = ['atx', 2, [['t', words[0].lower()]], collide == 2, 0]
        out = ([h] + out) if collide == 1 else (out + [h])
    st8 = [None, 0]
    out = unify_angles(out, st8, allow_known)
    d['angles_escaped'] = st8[1]
    d['blocks'] = gdoc.fix_blocks(out)
    # a paragraph that consists of nothing but bracket pairs (`[text][ref]`, `[ref][]`, `[ref]`) right after a table is, by the caption syntax, the
    # caption of that table, and by the paragraph syntax a paragraph with a reference link: the documentation does not say which; kept apart
    sep_ = []
    for b_ in d['blocks']:
        if sep_ and sep_[-1][0] == 'table' and b_[0] == 'para' and b_[1] and all(x[0] == 'reflink' for x in b_[1][0]):
            sep_.append(['hr', '* * *'])
        sep_.append(b_)
    d['blocks'] = sep_
    # the project's own expectation (Glossaries.htmlc) pins that a code block ending a source WITHOUT final newline is rendered without
    # the line ending inside <pre>; the syntax guide only shows terminated sources, so generated sources end with a newline
    d['final_nl'] = True
    return d


def depth(xs):
    m = 0
    for x in xs:
        if x[0] in ('em', 'st'):
            m = max(m, 1 + depth(x[2]))
        elif x[0] == 'link':
            m = max(m, 1 + depth(x[1]))
    return m


def check(case, ctx):
    w = ctx.w
    compat, smart = case['compat'], case['smart']
    doc = normalise(case['doc'], compat, bool(case.get('allow_known')), case.get('collide', 0))
    if doc.pop('angles_escaped'):
        ctx.cls('excluded_known_angle_pair')
    doc['meta'] = None
    if case.get('colspan') and not compat:
        # a body cell that spans two columns (`| x || y |`), in tables with at least three columns: the cells after it keep THEIR columns' alignment
        for b_ in doc['blocks']:
            if b_[0] == 'table' and len(b_[1]) >= 3 and (len(b_) < 6 or b_[5] is True):
                for r_ in b_[3]:
                    j_ = (case['colspan'] - 1) % (len(r_) - 1)
                    r_[j_ + 1] = None
                ctx.cls('table_with_spanning_cell')
    if case.get('capline') and not compat:
        # an ordinary paragraph that merely BEGINS like a caption line, right after a table: it stays a paragraph
        for i_, b_ in enumerate(doc['blocks']):
            if b_[0] == 'table':
                doc['blocks'] = gdoc.fix_blocks(doc['blocks'][:i_ + 1] + [['para', [[['bare', '[zcap] plain words']]], 'nl']] + doc['blocks'][i_ + 1:])
                ctx.cls('paragraph_starting_like_a_caption_after_table')
                break
    nolabels = bool(case.get('nolabels')) and not compat
    ext = (EXT['COMPAT'] | EXT['NO_LABELS'] if compat else EXT['NOTES']) | (EXT['SMART'] if smart else 0) | EXT['SNIPPET'] | (EXT['NO_LABELS'] if nolabels else 0)
    src = gdoc.ser_doc(doc)
    if KEYLINE.match(src.split('\n')[0]) and not compat:
        doc['blocks'] = [['para', [[['t', 'opening words']]], 'nl']] + doc['blocks']
        doc['blocks'] = gdoc.fix_blocks(doc['blocks'])
        src = gdoc.ser_doc(doc)
    if '\x00' in src:
        return
    # a manual label on the last heading (`## Title [label]`), optionally as the very last bytes of the source (no final newline)
    lastb = doc['blocks'][-1] if doc['blocks'] else None
    use_ml = bool(case.get('mlabel')) and case['kind'] == 'model' and not compat and not nolabels and lastb is not None and lastb[0] == 'atx' and not lastb[3] \
        and all(x[0] == 't' for x in lastb[2]) and not doc.get('defs') and not doc.get('notes') and src.endswith('\n') and not src.endswith('\n\n')
    if use_ml:
        src = src[:-1] + ' [zlabel]' + ('\n' if case['mlabel'] == 1 else '')
        ctx.cls('manual_label_on_last_heading' + ('_at_end_of_input' if case['mlabel'] == 2 else ''))
    got = w.convert(src, 'html', ext).text
    kinds = gdoc.block_kinds(doc['blocks'])
    if case['kind'] == 'model':
        exp = htmlmodel.document(doc, smart=smart, compat=compat, nolabels=nolabels)
        if use_ml:
            i_ = exp.rfind('<h%d id="' % lastb[1])
            exp = exp[:i_] + re.sub(r'^(<h\d id=")[^"]*"', r'\1zlabel"', exp[i_:])
        if nolabels:
            ctx.cls('mmd_nolabels')
        ctx.cls('model_compat' if compat else 'model_mmd')
        for k in kinds:
            ctx.cls('block_' + k)
        if doc.get('defs'):
            ctx.cls('reference_links')
            if case.get('collide') and any(b[0] == 'atx' and b[2] == [['t', r[0].lower()]] for b in doc['blocks'] for r in doc['defs']):
                ctx.cls('heading_label_collides_with_definition')
        if re.search(r'^ {1,3}(#|[*+-] |\d+\. )', src, re.M):
            ctx.cls('indented_marker')
        if got != exp:
            # first differing line, for the signature
            gl, el = got.split('\n'), exp.split('\n')
            i = 0
            while i < min(len(gl), len(el)) and gl[i] == el[i]:
                i += 1
            tag = re.match(r'\s*<(/?\w+)', el[i] if i < len(el) else '') or re.match(r'\s*<(/?\w+)', gl[i] if i < len(gl) else '')
            sig = 'model:html-differs:%s' % ('compat' if compat else 'mmd')
            if case.get('allow_known') and re.search(r'<[^>]*[*_][^>]*>[*_]', src):
                sig = 'model:angle-pair-blocks-emphasis'
            raise Violation(sig,
                            'smart=%s compat=%s first difference at line %d (%s)\nexpected: %r\ngot:      %r\nsource=%r\nexpected html=%r\nactual html=%r'
                            % (smart, compat, i + 1, tag.group(1) if tag else 'text', el[i] if i < len(el) else None, gl[i] if i < len(gl) else None, src, exp[:1200], got[:1200]))
        # the same source with CRLF line endings is the same document (line endings inside code would be copied, so code-free documents only)
        if case.get('crlf') and not ({'fence', 'icode'} & set(kinds)) and '`' not in src:
            got2 = w.convert(src.replace('\n', '\r\n'), 'html', ext).text
            if got2.replace('\r\n', '\n') != exp:
                raise Violation('spelling:crlf-differs', 'smart=%s compat=%s\nsource (LF form)=%r\nwith CRLF: %r\nwith LF:   %r' % (smart, compat, src, got2[:1200], exp[:1200]))
            ctx.cls('crlf_spelling_checked')
        inl_depth = 0
        for b in doc['blocks']:
            if b[0] == 'para':
                inl_depth = max(inl_depth, max(depth(l) for l in b[1]))
        if len(kinds) >= 2 or inl_depth >= 2:
            ctx.nontrivial(src + str(ext))
            ctx.sample({'mode': 'compat' if compat else 'mmd', 'smart': smart, 'source': src[:400]})
    else:
        parts = []
        for b in doc['blocks']:
            one = dict(doc, blocks=[b], final_nl=True)
            s1 = gdoc.ser_doc(one)
            if KEYLINE.match(s1.split('\n')[0]) and not compat:
                return      # a lone heading "Word: x" on line one would be metadata; not a case of the relation
            parts.append(w.convert(s1, 'html', ext).text.rstrip('\n'))
        exp = '\n\n'.join(parts) + '\n'
        ctx.cls('compositional')
        if got != exp:
            raise Violation('compositional:%s' % ('compat' if compat else 'mmd'), 'render(b1..bn) != concatenation of render(bi)\nsource=%r\nwhole=%r\nparts=%r' % (src, got[:1200], exp[:1200]))
        if len(doc['blocks']) >= 3 and len(kinds) >= 2:
            ctx.nontrivial('comp' + src + str(ext))


def extra(ev):
    ev.extra['not_modelled'] = NOT_MODELLED


def run(tier):
    return hyp.run(__import__('props.c03', fromlist=['x']), tier, quick_s=30, thorough_s=600, chunk=200, extra_evidence=extra)


def replay(path):
    return hyp.replay(__import__('props.c03', fromlist=['x']), path)
