"""C19 — DString behaves like the obvious string model (rapidcheck state machine, asan variant)."""
from lib import rcrun

PROP = 'C19'
RULE = ('rapidcheck state machine over 13 DString operations on 3 live strings; arguments from the boundary set '
        '{0,1,len-1,len,len+1,2len,-1,-2,SIZE_MAX/2+1} and payload sizes around the 1024/2048/4096 capacity steps; '
        'oracle = std::string model in unbounded arithmetic checked after every command. A case is non-trivial when '
        'it contains >=1 out-of-range or "-1" argument AND >=1 operation that crossed a capacity step; distinct by '
        'the serialised command list.')
ASSUMPTIONS = ['payloads are NUL-free; _c_array byte counts never exceed the payload; replace() pattern is non-empty',
               'an occurrence straddling the end of the replace range may or may not be replaced (both accepted, counted)',
               'rapidcheck and libstdc++ are trusted; the model is the std::string code in harness/c19_dstring.cpp']
_rc = rcrun.RC(PROP, 'c19_dstring', 'c19_dstring.cpp', RULE, ASSUMPTIONS, quick=4000, thorough=200000, max_size=60)
prebuild, replay, run = _rc.prebuild, _rc.replay, _rc.run
