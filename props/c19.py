"""C19 — DString behaves like the obvious string model (rapidcheck state machine, asan variant)."""
import json
import os
import shutil
import subprocess

from lib import common, vbuild

PROP = 'C19'
RULE = ('rapidcheck state machine over 13 DString operations on 3 live strings; arguments from the boundary set '
        '{0,1,len-1,len,len+1,2len,-1,-2,SIZE_MAX/2+1} and payload sizes around the 1024/2048/4096 capacity steps; '
        'oracle = std::string model in unbounded arithmetic checked after every command. A case is non-trivial when '
        'it contains >=1 out-of-range or "-1" argument AND >=1 operation that crossed a capacity step; distinct by '
        'the serialised command list.')


def binary():
    return vbuild.harness('c19_dstring', 'asan', ['c19_dstring.cpp'], libs=['-lrapidcheck'])


def prebuild():
    binary()


def _replay_once(path):
    p = subprocess.run([binary(), 'replay', path], env=common.san_env(), stdout=subprocess.PIPE, stderr=subprocess.PIPE)
    return p.returncode, p.stdout.decode(errors='replace'), p.stderr.decode(errors='replace')


def classify(path):
    """Run a replay; returns None if it passes, else a signature string."""
    rc, out, err = _replay_once(path)
    if rc == 0:
        return None
    sig = common.san_signature(err)
    if sig:
        return common.sig_str(sig)
    for line in out.splitlines():
        if line.startswith('MISMATCH'):
            msg = line.split(': ', 1)[1] if ': ' in line else line
            op = line.split()[4].split('[')[0] if len(line.split()) > 4 else '?'
            return 'model:%s:%s' % (op, msg.split('  [')[0])
    return 'crash:rc=%d' % rc


def replay(path):
    sig = classify(path)
    if sig is None:
        print('replay passes:', path)
        return 0
    common.violation(PROP, path, sig)
    return 1


def run(tier):
    ev = common.Evidence(PROP, tier)
    ev.rule = RULE
    ev.assumptions = ['payloads are NUL-free; _c_array byte counts never exceed the payload; replace() pattern is non-empty',
                      'an occurrence straddling the end of the replace range may or may not be replaced (both accepted, counted)',
                      'rapidcheck and libstdc++ are trusted; the model is the std::string code in harness/c19_dstring.cpp']
    known = common.Known()
    b = binary()
    work = common.scratch_dir('c19')
    nsh = common.NCPU
    per = int((4000 if tier == 'quick' else 200000) * common.budget_scale())
    procs = []
    for i in range(nsh):
        od = os.path.join(work, 's%d' % i)
        os.makedirs(od)
        env = common.san_env({'RC_PARAMS': 'seed=%d max_success=%d max_size=%d' % (common.seed() * 1000 + i + 1, per, 60)})
        procs.append((od, subprocess.Popen([b, 'run', od], env=env, stdout=open(os.path.join(od, 'out.txt'), 'wb'),
                                           stderr=open(os.path.join(od, 'err.txt'), 'wb'))))
    failures = []
    # committed regression replays first
    sd = os.path.join(common.SEEDS, PROP)
    regress = sorted(os.listdir(sd)) if os.path.isdir(sd) else []
    for f in regress:
        s = classify(os.path.join(sd, f))
        ev.add_class('regression_replays')
        if s:
            failures.append((os.path.join(sd, f), s))
    for od, p in procs:
        rc = p.wait()
        st = os.path.join(od, 'stats.json')
        if os.path.exists(st):
            d = json.load(open(st))
            ev.evaluations += d['cases']
            ev.add_class('commands_executed', d['commands'])
            ev.add_class('replace_straddling_range_end', d['straddles'])
            ev.merge_classes(d['classes'])
            ev.nontrivial.update(d['nontrivial'])
            for s in d['samples']:
                ev.sample(s)
        if rc != 0:
            src = os.path.join(od, 'failure.txt')
            if not os.path.exists(src):
                src = os.path.join(od, 'journal.txt')
            name = 'c19-%s-%s.txt' % (common.sha(open(src, 'rb').read()), os.path.basename(od))
            rp = common.save_replay(PROP, name, open(src, 'rb').read())
            sig = None
            for _ in range(3):
                sig = classify(rp)
                if sig is None:
                    break
            if sig is None:
                ev.inconclusive.append('failure did not reproduce from %s' % rp)
            else:
                failures.append((rp, sig))
    rcode = 0
    seen = set()
    for rp, sig in failures:
        k = known.match(PROP, sig)
        if k:
            if sig not in seen:
                common.known_line(PROP, sig, k['what'])
                ev.known_hit.append(sig)
        else:
            if sig not in seen:
                common.violation(PROP, rp, sig)
            ev.violations += 1
            rcode = 1
        seen.add(sig)
    ev.write()
    shutil.rmtree(work, ignore_errors=True)
    print('%s %s: %d cases, %d distinct non-trivial, %d violations' % (PROP, tier, ev.evaluations, len(ev.nontrivial), ev.violations))
    return rcode
