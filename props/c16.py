"""C16 — valid UTF-8 in, valid UTF-8 out (E1 target fz_c16)."""
import os
import re
import shutil

from lib import common, fuzz, vbuild

PROP = 'C16'
RULE = ('coverage-guided byte mutation where every input is first mapped onto a VALID UTF-8 document (G-utf8: ASCII kept, each byte >= 0x80 '
        'selects one of 40 code points whose encodings contain the bytes the lexer/char tables treat specially: U+00A0, U+00E0, U+00C2/C3, U+0085, '
        'U+2028, U+FFFC, U+FEFF, combining marks, 3- and 4-byte characters, range boundaries); trailer selects 13 extension bits, language, and which '
        'formats are rendered (HTML always; LaTeX, Beamer, Memoir, FODT full+body, OPML). Oracle: an independent strict UTF-8 validator accepts every '
        'output, and the text returned by metadata_keys, metavalue_for_key, CriticMarkup accept/reject, update_metavalue and OPML re-import. '
        'Non-trivial: input with a multi-byte character adjacent to a syntax character or at end of input (counted in-target); lower bound = corpus additions.')
VARIANTS = ['fuzz']


def binary(variant):
    return vbuild.harness('fz_c16', variant, ['fz_c16.cpp'], extra=['-fsanitize=fuzzer', '-Wl,--wrap=exit'])


def prebuild():
    for v in VARIANTS:
        binary(v)


def replay(path):
    bad = False
    for v in VARIANTS:
        ok, sig, err = fuzz.execute(binary(v), path)
        if not ok:
            common.violation(PROP, path, '%s variant=%s' % (sig, v))
            print(err[-2500:])
            bad = True
    if not bad:
        print('replay passes:', path)
    return 1 if bad else 0


def run(tier):
    ev = common.Evidence(PROP, tier)
    ev.rule = RULE
    ev.assumptions = ['the target asserts that its own (mapped) input is valid UTF-8 before judging any output',
                      'random heading labels (EXT_RANDOM_LABELS) are exercised because they replace label text; output validity does not depend on their value']
    known = common.Known()
    work = common.scratch_dir('c15')
    texts = os.path.join(work, 'seed-texts')
    os.makedirs(texts)
    for p in fuzz.corpus_texts():
        shutil.copy(p, os.path.join(texts, common.sha(p) + '.text'))
    regress = os.path.join(common.SEEDS, PROP)
    secs = int((40 if tier == 'quick' else 900) * common.budget_scale())
    camps = []
    for v in VARIANTS:
        cnt = os.path.join(work, 'counts-%s.txt' % v)
        c = fuzz.Campaign(binary(v), v, work, [texts, regress], env={'FZ_COUNTS': cnt}, max_len=4096 if tier == 'quick' else 16384,
                          dict_path=os.path.join(common.SEEDS, 'dict', 'mmd.dict'))
        c.variant, c.counts = v, cnt
        camps.append(c.start(secs, common.NCPU, common.seed()))
    failures = []
    # committed regressions
    if os.path.isdir(regress):
        for f in sorted(os.listdir(regress)):
            for v in VARIANTS:
                ok, sig, _ = fuzz.execute(binary(v), os.path.join(regress, f))
                ev.add_class('regression_replays')
                ev.evaluations += 1
                if not ok:
                    failures.append((sig, os.path.join(regress, f), v))
    for c in camps:
        c.wait()
        ev.evaluations += c.execs
        ev.add_class('execs_' + c.name, c.execs)
        ev.add_class('corpus_new_' + c.name, c.corpus_new)
        ev.add_class('edges_' + c.name, c.cov)
        ev.nontrivial_extra += c.corpus_new
        if os.path.exists(c.counts):
            vals = [int(x) for x in open(c.counts).read().split()]
            ev.add_class('in_target_nontrivial_%s(sum over fork jobs; multi-byte char adjacent to syntax or at end of input)' % c.name, sum(vals))
        if c.noise:
            ev.inconclusive.append('%s: %d timeout/oom artifacts (not verdicts)' % (c.name, c.noise))
        cl, unrepro = fuzz.classify_artifacts(c.binary, c.artifacts)
        if unrepro:
            ev.inconclusive.append('%s: %d artifacts did not reproduce' % (c.name, unrepro))
        for sig, paths in cl.items():
            failures.append((sig, paths[0], c.variant))
        for f in sorted(x for x in os.listdir(c.corpus) if not x.startswith('seed-'))[:2]:
            ev.sample({'variant': c.name, 'input': common.trunc(open(os.path.join(c.corpus, f), 'rb').read().decode('utf-8', 'replace'), 240)})
    rcode = 0
    seen = set()
    for sig, path, v in failures:
        k = known.match(PROP, sig)
        if k:
            if sig not in seen:
                common.known_line(PROP, sig, k['what'])
                ev.known_hit.append(sig)
        else:
            ev.violations += 1
            rcode = 1
            if sig not in seen:
                rp = path if path.startswith(common.SEEDS) else common.save_replay(PROP, 'c16-' + common.sha(open(path, 'rb').read()), open(path, 'rb').read())
                common.violation(PROP, rp, '%s variant=%s' % (sig, v))
                print(fuzz.detail(binary(v), rp))
        seen.add(sig)
    ev.write()
    shutil.rmtree(work, ignore_errors=True)
    print('%s %s: %d executions, %d corpus additions, %d violations' % (PROP, tier, ev.evaluations, ev.nontrivial_extra, ev.violations))
    return rcode
