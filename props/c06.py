"""C06 — every documented entry point produces the same result (E3 differential + CLI subprocess)."""
import os
import shutil
import subprocess

from hypothesis import strategies as st

from lib import hyp, pkg, vbuild, worker as wk
from lib.hyp import Violation
from lib.worker import EXT
from pbt import gdoc
from props import c05

PROP = 'C06'
RULE = ('sources (G-doc documents with metadata, corpus files, the statefulness pool of C05) x 11 formats x extension sets (CLI-expressible '
        'combinations of -c --nosmart --nolabels -f -s, and arbitrary library-only subsets) x 7 languages. Differential oracle: for HTML, LaTeX, '
        'Beamer, Memoir, OPML the 9 library variants {string,DString,engine} x {convert, convert_to_data, convert_to_file} and (sampled) the '
        'CLI on stdout, with -o and with -b give identical bytes; for FODT/EPUB/ODT/TextBundle/ITMZ the to_data, to_file variants and the CLI '
        'agree (archives member by member under the UUID/date mask); has_metadata/keys/value/update agree across the three families; every '
        'variant that returns something returns non-NULL and every to_file variant leaves a non-empty file. Batch mode is also run with two files in different folders, named relative to the working directory, incl. TextBundle folders. Non-trivial: >=6 variants compared '
        'and output longer than the empty-document output; distinct by (source, fmt, ext, lang).')
ASSUMPTIONS = ['CLI legs use sources without transclusion markers or CriticMarkup; for sources with MMD Header / MMD Footer metadata (which main.c splices into the text) the three CLI routes stdout, -o and -b are compared with one another instead of with the library',
               'FORMAT_MMD and FORMAT_HTML_WITH_ASSETS are not in the statement\'s lists and are not compared',
               'packaged formats are compared under the mask of lib/pkg.py (UUIDs, dcterms:modified, zip timestamps)']

PLAIN = ['html', 'latex', 'beamer', 'memoir', 'opml']
PACK = ['fodt', 'epub', 'odt', 'bundlezip', 'itmz', 'bundle']
CLI_EXT = {'epub': '.epub', 'html': '.html', 'latex': '.tex', 'beamer': '.tex', 'memoir': '.tex', 'fodt': '.fodt', 'odt': '.odt',
           'bundlezip': '.textpack', 'opml': '.opml', 'itmz': '.itmz', 'bundle': '.textbundle'}
LANGS = ['en', 'es', 'de', 'fr', 'nl', 'sv', 'he']
META = st.lists(st.one_of(st.tuples(st.sampled_from(['Title', 'Author', 'Date', 'css', 'Base Header Level', 'language', 'Keywords', 'latex config', 'My Key']),
                                    st.sampled_from(['A Title', 'Jane & John', '2020', 'style.css', '2', 'de', 'a, b', 'article', 'x "y" <z>'])),
                          st.tuples(st.sampled_from(['MMD Header', 'MMD Footer']), st.sampled_from(['Added *paragraph* from the metadata.', '[sharedref]: http://example.com/shared']))),
                min_size=0, max_size=4, unique_by=lambda t: t[0])
CFG = gdoc.Cfg(inlines=['t', 'em', 'st', 'code', 'link', 'img', 'auto', 'email', 'esc', 'smart', 'fnref', 'ifn', 'ent', 'bare'],
               blocks=['para', 'atx', 'setext', 'hr', 'fence', 'icode', 'quote', 'list', 'table', 'figure', 'toc', 'deflist'],
               meta=META.map(lambda m: [list(x) for x in m] or None))


def strategy(tier):
    cli_flags = st.lists(st.sampled_from(['-c', '--nosmart', '--nolabels', '-f', '-s']), max_size=3, unique=True)
    return st.fixed_dictionaries({
        'doc': st.one_of(gdoc.document(CFG).map(lambda d: ['g', d]), gdoc.document(CFG).map(lambda d: ['g', d]),
                         st.integers(0, 200).map(lambda i: ['c', i]), st.integers(0, len(c05.STATEFUL) - 1).map(lambda i: ['s', i])),
        'fmt': st.sampled_from(PLAIN + PLAIN + PACK),
        'flags': cli_flags,
        'libext': st.one_of(st.none(), st.none(), st.integers(0, (1 << 13) - 1)),
        'lang': st.integers(0, 6),
        'cli': st.integers(0, 5),
        'usedir': st.booleans(),
    })


def ext_from_flags(flags):
    ext = wk.EXT_DEFAULT
    if '-c' in flags:
        ext = wk.EXT_COMPAT
    if '--nosmart' in flags:
        ext &= ~EXT['SMART']
    if '--nolabels' in flags:
        ext |= EXT['NO_LABELS']
    if '-f' in flags:
        ext |= EXT['COMPLETE']
    if '-s' in flags:
        ext |= EXT['SNIPPET']
    return ext


def eq(fmt, a, b):
    if fmt in ('epub', 'odt', 'bundlezip', 'itmz', 'bundle'):
        try:
            return pkg.masked_view(a) == pkg.masked_view(b)
        except Exception:
            return False
    return a == b


def dir_as_members(path):
    out = {}
    for root, _dirs, files in os.walk(path):
        for f in files:
            p = os.path.join(root, f)
            out[os.path.relpath(p, path)] = open(p, 'rb').read()
    return out


def check(case, ctx):
    from lib import fuzz
    fix = fuzz.fixture()
    w = ctx.w
    src = c05.doc_text(case['doc'])
    if '\x00' in src:
        return
    if src.startswith('\ufeff'):
        src = src[1:]        # reading a file strips a leading BOM (scan_file); all legs get what the CLI would read
    fmt, lang = case['fmt'], case['lang']
    cli_ok = case['libext'] is None
    ext = ext_from_flags(case['flags']) if cli_ok else (case['libext'] & ~(EXT['RANDOM_FOOT'] | EXT['TRANSCLUDE']))
    directory = fix if case['usedir'] else ''
    ctx.cls('fmt_' + fmt)
    ctx.cls('ext_cli_expressible' if cli_ok else 'ext_library_only')
    outs = {}
    tmp = os.path.join(ctx.scratch, 'out')
    shutil.rmtree(tmp, ignore_errors=True)
    os.makedirs(tmp)
    apis = ['s', 'd', 'e', 'sd', 'dd', 'ed', 'sf', 'df', 'ef']
    for api in apis:
        path = os.path.join(tmp, 'o_' + api)
        r = w.convert(src, fmt, ext, lang, api=api, directory=directory, path=path)
        if r.status != 'ok':
            raise Violation('result:%s' % r.status, 'api=%s fmt=%s ext=%#x returned %s' % (api, fmt, ext, r.status))
        if not r.src_same:
            raise Violation('source:modified', 'api=%s fmt=%s' % (api, fmt))
        if api.endswith('f') and len(api) == 2:
            if fmt == 'bundle':
                if not os.path.isdir(path):
                    raise Violation('to_file:nothing-written', 'api=%s fmt=bundle: no directory at the requested path' % api)
                outs[api] = dir_as_members(path)
                continue
            if r.out == b'\x01NOFILE' or not os.path.isfile(path):
                raise Violation('to_file:nothing-written', 'api=%s fmt=%s ext=%#x: no file at the requested path' % (api, fmt, ext))
            if len(r.out) == 0:
                raise Violation('to_file:empty', 'api=%s fmt=%s' % (api, fmt))
        outs[api] = r.out
    compared = 0
    if fmt in PLAIN:
        ref = outs['sd']
        for api in apis:
            if outs[api] != ref:
                raise Violation('variants-differ:plain', 'fmt=%s ext=%#x lang=%d: %s differs from sd\nsd=%r\n%s=%r\nsource=%r' % (fmt, ext, lang, api, ref[-300:], api, outs[api][-300:], src[:300]))
            compared += 1
    elif fmt == 'bundle':
        ref = {n: c for n, c, _ in pkg.members(outs['sd']) if not n.endswith('/')}
        flat = lambda b_: pkg.UUID.sub(b'UUID', b_)
        refm = sorted((flat(n.encode()), flat(c)) for n, c in ref.items())
        for api in ('sf', 'df', 'ef'):
            got = sorted((flat(n.encode()), flat(c)) for n, c in outs[api].items())
            if got != refm:
                raise Violation('variants-differ:bundle-dir', 'api=%s files %r vs zip members %r' % (api, [x[0] for x in got], [x[0] for x in refm]))
            compared += 1
        for api in ('dd', 'ed'):
            if not eq(fmt, outs[api], outs['sd']):
                raise Violation('variants-differ:package', 'fmt=%s api=%s' % (fmt, api))
            compared += 1
    else:
        ref = outs['sd']
        for api in ('dd', 'ed', 'sf', 'df', 'ef'):
            if not eq(fmt, outs[api], ref):
                raise Violation('variants-differ:package', 'fmt=%s ext=%#x: %s differs from sd (len %d vs %d)\nsource=%r' % (fmt, ext, api, len(outs[api]), len(ref), src[:300]))
            compared += 1
    # metadata families
    if case['doc'][0] == 'g' and case['doc'][1].get('meta'):
        res = {}
        for fam in 'sde':
            h = w.meta(fam, 'has', src)
            res[fam] = (h[1], h[2], w.meta(fam, 'keys', src)[:2], w.meta(fam, 'value', src, 'Title')[:2], w.meta(fam, 'value', src, 'my key')[:2],
                        w.meta(fam, 'update', src, 'author', 'New Author')[:2])
        if not (res['s'] == res['d'] == res['e']):
            raise Violation('variants-differ:metadata', 'source=%r\n%r' % (src[:300], res))
        ctx.cls('metadata_families_compared')
        compared += 3
    # CLI legs
    # a source with `MMD Header` / `MMD Footer` metadata is pre-processed by main.c (text prepended / appended before conversion): the three
    # CLI routes must still agree with one another; the library reference is only comparable without that pre-processing
    preprocessed = 'mmd header' in src.lower() or 'mmd footer' in src.lower()
    if cli_ok and (case['cli'] == 0 or preprocessed) and '{{' not in src and '{++' not in src and '{--' not in src and '{~~' not in src:
        cli = vbuild.cli('asan')
        env = dict(os.environ, ASAN_OPTIONS='detect_leaks=0')
        d = os.path.join(tmp, 'cli')
        os.makedirs(d)
        f = os.path.join(d, 'in.txt')
        open(f, 'wb').write(src.encode('utf-8', 'surrogateescape'))
        for asset in ('pic.png', 'style.css'):          # assets next to the document: the CLI must find them where the library does
            shutil.copy(os.path.join(fix, asset), os.path.join(d, asset))
        base = [cli] + case['flags'] + ['-t', fmt, '-l', LANGS[lang]]
        # the CLI always passes the file's directory: compare with the library leg that got the same directory
        libref = w.convert(src, fmt, ext, lang, api='sd', directory=d).out
        p1 = subprocess.run(base + [f], stdout=subprocess.PIPE, stderr=subprocess.PIPE, env=env)
        o = os.path.join(d, 'explicit.out')
        p2 = subprocess.run(base + ['-o', o, f], stdout=subprocess.PIPE, stderr=subprocess.PIPE, env=env)
        p3 = subprocess.run(base + ['-b', f], stdout=subprocess.PIPE, stderr=subprocess.PIPE, env=env)
        bfile = os.path.join(d, 'in' + CLI_EXT[fmt])
        if preprocessed and '-c' not in case['flags']:
            libref = p1.stdout
            ctx.cls('cli_legs_with_mmd_header_footer')
        def read_out(path):
            # an (uncompressed) TextBundle is a folder: compared as the set of its files with the members of the zip the library returns
            if fmt == 'bundle':
                return dir_as_members(path) if os.path.isdir(path) else (b'\x01NOT-A-FOLDER' if os.path.exists(path) else None)
            return open(path, 'rb').read() if os.path.exists(path) else None
        for name, p, got in (('stdout', p1, p1.stdout), ('-o', p2, read_out(o)), ('-b', p3, read_out(bfile))):
            if p.returncode != 0:
                raise Violation('cli:exit-status', '%s rc=%d %r' % (name, p.returncode, p.stderr[-500:]))
            if got is None:
                raise Violation('cli:no-output-file', '%s fmt=%s flags=%r' % (name, fmt, case['flags']))
            if fmt == 'bundle' and isinstance(got, dict):
                flat = lambda b_: pkg.UUID.sub(b'UUID', b_)
                want_m = sorted((flat(n.encode()), flat(c)) for n, c, _ in pkg.members(libref) if not n.endswith('/'))
                if sorted((flat(n.encode()), flat(c)) for n, c in got.items()) != want_m:
                    raise Violation('cli-differs:%s' % name, 'fmt=bundle flags=%r: the folder written by the CLI differs from the members of the library result' % (case['flags'],))
                compared += 1
                continue
            if got == b'\x01NOT-A-FOLDER':
                raise Violation('cli-differs:%s' % name, 'fmt=bundle: %s wrote a file where the other routes write a folder' % name)
            if not eq(fmt, got, libref):
                raise Violation('cli-differs:%s' % name, 'fmt=%s flags=%r lang=%s\ncli=%r\nlib=%r\nsource=%r' % (fmt, case['flags'], LANGS[lang], got[-300:], libref[-300:], src[:300]))
            compared += 1
        # batch mode with two files in different folders: each file is converted relative to its OWN folder (assets, transclusion base)
        if not preprocessed and fmt in ('epub', 'odt', 'bundlezip', 'html', 'fodt', 'bundle'):
            d2 = os.path.join(d, 'other')
            os.makedirs(d2)
            f2 = os.path.join(d2, 'second.txt')
            open(f2, 'wb').write(src.encode('utf-8', 'surrogateescape'))       # same text, but no assets next to it
            for stale in (bfile,):
                if os.path.isdir(stale):
                    shutil.rmtree(stale)
                elif os.path.exists(stale):
                    os.unlink(stale)
            # (file names relative to the working directory: writing the first result must not move the process somewhere else)
            p4 = subprocess.run(base + ['-b', 'in.txt', os.path.join('other', 'second.txt')], stdout=subprocess.PIPE, stderr=subprocess.PIPE, env=env, cwd=d)
            lib2 = w.convert(src, fmt, ext, lang, api='sd', directory=d2).out
            b2 = os.path.join(d2, 'second' + CLI_EXT[fmt])

            def same_(got, want):
                if fmt == 'bundle':
                    flat = lambda b_: pkg.UUID.sub(b'UUID', b_)
                    return isinstance(got, dict) and sorted((flat(n.encode()), flat(c)) for n, c in got.items()) == sorted((flat(n.encode()), flat(c)) for n, c, _ in pkg.members(want) if not n.endswith('/'))
                return eq(fmt, got, want)
            for name, got, want in (('-b first of two', read_out(bfile), libref), ('-b second of two', read_out(b2), lib2)):
                if p4.returncode != 0 or got is None:
                    raise Violation('cli:batch-two-files', '%s fmt=%s rc=%d %r' % (name, fmt, p4.returncode, p4.stderr[-300:]))
                if not same_(got, want):
                    raise Violation('cli-differs:%s' % name.replace(' ', '-'), 'fmt=%s flags=%r: the file converted in batch mode differs from the library conversion relative to its own folder\nsource=%r' % (fmt, case['flags'], src[:300]))
                compared += 1
            ctx.cls('cli_batch_two_folders')
        ctx.cls('cli_legs_checked')
    empty = w.convert('', fmt, ext, lang, api='sd').out
    if compared >= 6 and len(outs['sd']) > len(empty):
        ctx.nontrivial(src + fmt + str(ext) + str(lang))
        ctx.sample({'source': src[:300], 'fmt': fmt, 'ext': hex(ext), 'lang': lang, 'variants_compared': compared})


def prebuild():
    vbuild.cli('asan')


def run(tier):
    return hyp.run(__import__('props.c06', fromlist=['x']), tier, quick_s=30, thorough_s=600, chunk=150)


def replay(path):
    return hyp.replay(__import__('props.c06', fromlist=['x']), path)
