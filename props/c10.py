"""C10 — generated anchors and the references to them always match (E3, validity predicates over the parsed HTML)."""
import re
import xml.etree.ElementTree as ET

from hypothesis import strategies as st

from lib import hyp
from lib.hyp import Violation
from lib.worker import EXT
from lib import worker as wk

PROP = 'C10'
RULE = ('Hypothesis-generated documents with 1..8 headings of every style (ATX with/without closing #, Setext 1 and 2, manual [label], duplicate '
        'titles, punctuation and multi-byte characters in titles), 0..5 footnotes / citations / glossary terms (reference-defined, inline, re-used, '
        'unused, "not cited"), nested in lists and quotes, cross-references [Title][] / [Title] / [text][Title] (by label for manually labelled '
        'headings), an optional captioned table and {{TOC}}; options {default, EXT_RANDOM_FOOT, EXT_RANDOM_LABELS, EXT_NO_LABELS, base header level}. '
        'Oracle over the parsed HTML: every generated href="#x" has an element with id x; note calls target an entry of the right list and the '
        'entry links back to the first call; displayed numbers are 1..n in order of first use and list entries follow that order; not-cited entries '
        'are listed without a call; every cross-reference created by the generator became a link to the id actually carried by that heading/table; '
        'TOC entries equal the headings in order. One case in two takes the route \'one parse, exports through other writers (ITMZ, OPML, LaTeX, FODT), then the HTML export of the same tree\'. Non-trivial: >=2 notes with a re-use or inline note, or >=2 heading styles with a cross-reference; '
        'distinct by source+option.')
ASSUMPTIONS = ['cross-references are only created to headings whose title is unique in the document (a duplicate title has no single target)',
               'with EXT_NO_LABELS no cross-references are generated (documented: headers get no id)',
               'a not-cited citation entry has no call to return to (its back-link is exempt, as in the statement)',
               'the HTML snippet is parsed with a real XML parser after wrapping it in a root element']

WORDS = ['Alpha', 'Bravo', 'Charlie', 'Delta', 'Echo', 'Foxtrot', 'Golf', 'Hotel', 'India', 'Juliet']
SUFFIX = ['', '', ' 2', ': x', '-y', '. z', ' é', ' 中文', ' & more', ' (paren)', '_under']


def title_st():
    return st.tuples(st.lists(st.sampled_from(WORDS), min_size=1, max_size=3), st.sampled_from(SUFFIX)).map(lambda t: ' '.join(t[0]) + t[1])


heading = st.fixed_dictionaries({'title': title_st(), 'style': st.sampled_from(['atx', 'atxc', 'set1', 'set2', 'manual']), 'level': st.integers(1, 4)})
piece = st.one_of(
    st.tuples(st.just('w'), st.sampled_from(['plain words', 'more text', 'and so on'])),
    st.tuples(st.just('fn'), st.integers(0, 4)), st.tuples(st.just('fn'), st.integers(0, 4)),
    st.tuples(st.just('ifn'), st.integers(0, 99)),
    st.tuples(st.just('cite'), st.integers(0, 2)), st.tuples(st.just('citep'), st.integers(0, 2)), st.tuples(st.just('notcited'), st.integers(0, 2)),
    st.tuples(st.just('gl'), st.integers(0, 2)),
    st.tuples(st.just('xref'), st.integers(0, 7), st.sampled_from(['implicit', 'bare', 'text'])),
    st.tuples(st.just('xref'), st.integers(0, 7), st.sampled_from(['implicit', 'bare', 'text'])),
    st.tuples(st.just('tref'), st.just(0)),
)
para = st.lists(piece, min_size=1, max_size=5)
body_block = st.tuples(st.sampled_from(['para', 'para', 'list', 'quote']), st.lists(para, min_size=1, max_size=2))


def strategy(tier):
    return st.fixed_dictionaries({
        'heads': st.lists(st.tuples(heading, st.lists(body_block, max_size=2)), min_size=1, max_size=8),
        'toc': st.sampled_from([None, None, 0, 1, 2]),
        'tabcap': st.integers(0, 3), 'fnshape': st.lists(st.integers(0, 3), min_size=6, max_size=6),
        'toc_range': st.sampled_from([None, None, '2-3', '2', '1-2', '3-6', '1', '1-6']),
        # a note whose text calls another note: (host kind, host index, guest kind, guest index)
        'nest': st.lists(st.tuples(st.sampled_from(['fn', 'cite', 'gl']), st.integers(0, 4), st.sampled_from(['fn', 'cite', 'gl']), st.integers(0, 4)), max_size=3),
        'table': st.booleans(),
        'mode': st.sampled_from(['default', 'default', 'random_foot', 'random_labels', 'no_labels', 'base_header_level']),
        'smart': st.booleans(),
        'unused_note': st.booleans(),
        # route: the plain conversion, or one parse exported by other writers first and then by the HTML writer (the tree is shared)
        'route': st.sampled_from([None, None, None, ['itmz'], ['opml', 'latex'], ['fodt', 'itmz']]),
    })


# caption line of the table, and the text by which the document refers to the table
TABCAPS = [('[Table Caption][tablabel]', 'tablabel'), ('[Spaced Caption] [tablabel]', 'Spaced Caption'), ('[Only Caption]', 'Only Caption'),
           ('[Long Caption][tablabel][extra]', 'tablabel')]


def build(case):
    heads = [h for h, _ in case['heads']]
    titles = [h['title'] for h in heads]
    mode = case['mode']
    refs = []          # (link text, target kind, target index)
    used = dict(fn=[], cite=[], gl=[], notcited=[], cite_mentions=[])
    counter = [0]
    unique = lambda i: titles.count(titles[i]) == 1 and not any(t != titles[i] and label_of(t) == label_of(titles[i]) for t in titles)

    def ser_para(p):
        out = []
        for x in p:
            k = x[0]
            if k == 'w':
                out.append(x[1])
            elif k == 'fn':
                out.append('note[^fn%d]' % x[1]); used['fn'].append('fn%d' % x[1])
            elif k == 'ifn':
                out.append('inl[^inline note %d here]' % x[1]); used['fn'].append('inline%d' % len(used['fn']))
            elif k == 'cite':
                out.append('cite[#ct%d]' % x[1]); used['cite'].append('ct%d' % x[1]); used['cite_mentions'].append('ct%d' % x[1])
            elif k == 'citep':
                out.append('[p. 3][#ct%d]' % x[1]); used['cite'].append('ct%d' % x[1]); used['cite_mentions'].append('ct%d' % x[1])
            elif k == 'notcited':
                out.append('[Not cited][#nc%d]' % x[1]); used['notcited'].append('nc%d' % x[1]); used['cite_mentions'].append('nc%d' % x[1])
            elif k == 'gl':
                out.append('[?term%d]' % x[1]); used['gl'].append('term%d' % x[1])
            elif k == 'xref':
                i = x[1] % len(heads)
                if mode == 'no_labels' or not unique(i) or (mode == 'random_labels' and heads[i]['style'] == 'manual' and False):
                    out.append('skipped')
                    continue
                h = heads[i]
                target = ('lab%d' % i) if h['style'] == 'manual' else h['title']
                counter[0] += 1
                if x[2] == 'text':
                    text = 'link text %d' % counter[0]
                    out.append('[%s][%s]' % (text, target))
                else:
                    text = target
                    out.append('[%s][]' % target if x[2] == 'implicit' else '[%s]' % target)
                refs.append((text, 'head', i))
            elif k == 'tref':
                if case['table']:
                    reftext = TABCAPS[case.get('tabcap', 0)][1]
                    out.append('[%s][]' % reftext)
                    refs.append((reftext, 'table', 0))
                else:
                    out.append('no table')
        return ' '.join(out)

    blocks = []
    if mode == 'base_header_level':
        blocks.append('Base Header Level: 2\n')
    for idx, (h, body) in enumerate(case['heads']):
        t, lvl = h['title'], h['level']
        if h['style'] == 'atx':
            blocks.append('#' * lvl + ' ' + t)
        elif h['style'] == 'atxc':
            blocks.append('#' * lvl + ' ' + t + ' ' + '#' * lvl)
        elif h['style'] == 'manual':
            blocks.append('#' * lvl + ' ' + t + ' [lab%d]' % idx)
        elif h['style'] == 'set1':
            blocks.append(t + '\n' + '=' * max(3, len(t)))
        else:
            blocks.append(t + '\n' + '-' * max(3, len(t)))
        for kind, paras in body:
            if kind == 'para':
                blocks.append(ser_para(paras[0]))
            elif kind == 'list':
                blocks.append('\n'.join('* ' + ser_para(p) for p in paras))
            else:
                blocks.append('\n'.join('> ' + ser_para(p) for p in paras))
        if case['toc'] is not None and case['toc'] == idx:
            blocks.append('{{TOC:%s}}' % case['toc_range'] if case.get('toc_range') else '{{TOC}}')
    if case['table']:
        blocks.append('| a | b |\n|---|---|\n| c | d |\n' + TABCAPS[case.get('tabcap', 0)][0])
    # notes called from inside other notes' texts.  The lists are written in the order footnotes, glossary, citations and each list re-reads its
    # length while it is written, so a first call inside a note text registers its target as long as the target's list is not yet closed:
    # same kind (to a higher index: no cycles), or towards a later list.  The other direction (a footnote first called inside a glossary or
    # citation entry, a glossary term first called inside a citation entry) is a known finding and only generated for its seed.
    RANK = {'fn': 0, 'gl': 1, 'cite': 2}
    NAME = {'fn': 'fn%d', 'gl': 'term%d', 'cite': 'ct%d'}
    CALL = {'fn': 'see[^%s]', 'gl': 'see [?%s]', 'cite': 'see[#%s]'}
    nest = {}
    used['reverse_nest'] = False
    for hk, hi, gk, gi in case.get('nest', []):
        hi, gi = hi % (5 if hk == 'fn' else 3), gi % (5 if gk == 'fn' else 3)
        if hk == gk and gi <= hi:
            continue
        if RANK[gk] < RANK[hk]:
            if not case.get('allow_known'):
                used['excluded_reverse_nest'] = used.get('excluded_reverse_nest', 0) + 1
                continue
            used['reverse_nest'] = True
        nest.setdefault((hk, NAME[hk] % hi), []).append((gk, NAME[gk] % gi))
    defs = {'fn': sorted(set(x for x in used['fn'] if x.startswith('fn'))), 'cite': sorted(set(used['cite'] + used['notcited'])), 'gl': sorted(set(used['gl']))}
    called = {'fn': list(dict.fromkeys(x for x in used['fn'])), 'cite': list(dict.fromkeys(used['cite'])), 'gl': list(dict.fromkeys(used['gl']))}
    # closure in the order the writer visits the lists
    for hk in ('fn', 'gl', 'cite'):
        i = 0
        while i < len(called[hk]):
            for gk, g in nest.get((hk, called[hk][i]), []):
                if g not in called[gk]:
                    called[gk].append(g)
                if g not in defs[gk]:
                    defs[gk].append(g)
                used['nested'] = used.get('nested', 0) + 1
            i += 1
    used['called'] = called
    tail = lambda k, n: ''.join(' ' + CALL[gk] % g for gk, g in nest.get((k, n), []))
    if case['unused_note']:
        defs['fn'].append('fnunused')
    shapes = case.get('fnshape') or [0] * 6
    for i, n in enumerate(defs['fn']):
        d = '[^%s]: text of %s.%s' % (n, n, tail('fn', n))
        sh = shapes[i % len(shapes)]
        if sh == 1:
            d += '\n\n    > quoted paragraph of %s' % n          # a paragraph nested in a block inside the note
        elif sh == 2:
            d += '\n\n    * item one of %s\n\n    * item two' % n   # a loose list inside the note
        elif sh == 3:
            d += '\n\n    second paragraph of %s' % n
        blocks.append(d)
    for c in defs['cite']:
        blocks.append('[#%s]: Author. *Title %s*. 2020.%s' % (c, c, tail('cite', c)))
    for g in defs['gl']:
        blocks.append('[?%s]: definition of %s%s' % (g, g, tail('gl', g)))
    if mode != 'base_header_level' and re.match(r'^[A-Za-z0-9][A-Za-z0-9_ \t.\-]*:', blocks[0]):
        blocks.insert(0, 'Opening paragraph so that line one is not metadata-shaped.')
    return '\n\n'.join(blocks) + '\n', heads, refs, used


def label_of(title):
    return ''.join(c.lower() for c in title if (c.isascii() and c.isalnum()) or c in '._-:' or not c.isascii())


def text_of(el):
    return ''.join(el.itertext())


def check(case, ctx):
    src, heads, refs, used = build(case)
    mode = case['mode']
    ext = EXT['NOTES'] | EXT['CRITIC'] | (EXT['SMART'] if case['smart'] else 0)
    ext |= {'random_foot': EXT['RANDOM_FOOT'], 'random_labels': EXT['RANDOM_LABELS'], 'no_labels': EXT['NO_LABELS']}.get(mode, 0)
    if mode in ('random_foot', 'random_labels'):
        ctx.w.call('srand', 12345)      # the random anchors come from libc rand(): pin its state so a case is reproducible
    if case.get('route') and mode not in ('random_foot', 'random_labels'):
        w = ctx.w
        w.call('pool', 'init')
        eid = w.call('enew', ext | EXT['SNIPPET'], src)[1]
        try:
            for pre in case['route']:
                w.call('eexport', eid, wk.FMT[pre])
            out = w.call('eexport', eid, wk.FMT['html'])[1].decode('utf-8', 'replace') + '\n'
        finally:
            w.call('efree', eid)
            w.call('pool', 'drain')
        ctx.cls('route_one_parse_several_writers')
    else:
        r = ctx.w.convert(src, 'html', ext | EXT['SNIPPET'])
        if r.status != 'ok':
            raise Violation('convert:' + r.status, src)
        out = r.text
    ctx.cls('mode_' + mode)
    try:
        root = ET.fromstring('<root>' + out.replace('&nbsp;', '&#160;') + '</root>')
    except ET.ParseError as e:
        raise Violation('html:not-parseable', '%s\nsource=%r\nout=%r' % (e, src, out[:800]))
    ids = {}
    for el in root.iter():
        i = el.get('id')
        if i is not None:
            ids.setdefault(i, []).append(el)
    def fail(sig, msg):
        if used['reverse_nest'] and re.match(r'(footnote|glossary):(call-dangling|list-size)', sig):
            sig = 'note:first-call-inside-later-list'
        return Violation(sig, '%s\nmode=%s\nsource=%r\nhtml=%r' % (msg, mode, src, out[:1500]))
    if used.get('excluded_reverse_nest'):
        ctx.cls('excluded_known_reverse_nest')
    if used.get('nested'):
        ctx.cls('nested_note_calls')
    # --- lists ---
    lists = {}
    for div in root.iter('div'):
        c = div.get('class')
        if c in ('footnotes', 'citations', 'glossary'):
            ol = div.find('ol')
            lists[c] = [li for li in (ol if ol is not None else []) if li.tag == 'li']      # the entries themselves, not list items inside a note's text
    calls = {'footnote': [], 'citation': [], 'glossary': []}
    for a in root.iter('a'):
        c = a.get('class')
        if c in calls:
            calls[c].append(a)
    # not-cited entries: listed, never called
    called_cn = set(a.get('href') for a in calls['citation'])
    for kind, lname, back, prefix in (('footnote', 'footnotes', 'reversefootnote', 'fn'), ('citation', 'citations', 'reversecitation', 'cn'), ('glossary', 'glossary', 'reverseglossary', 'gn')):
        lis = lists.get(lname, [])
        li_ids = [li.get('id') for li in lis]
        first_use = []
        for a in calls[kind]:
            h = a.get('href', '')
            if not h.startswith('#') or h[1:] not in ids:
                raise fail('%s:call-dangling' % kind, 'call href %r has no target' % h)
            tgt = ids[h[1:]][0]
            if tgt not in lis:
                raise fail('%s:call-target-not-in-list' % kind, 'call href %r points outside the %s list' % (h, lname))
            if h[1:] not in first_use:
                first_use.append(h[1:])
                if a.get('id') is None:
                    raise fail('%s:first-call-without-id' % kind, 'first call to %s carries no id for the back-link' % h)
        # entries are numbered / ordered by first use; not-cited entries follow in the list without a call
        called_entries = [i for i in li_ids if i in first_use]
        if called_entries != first_use:
            raise fail('%s:list-order' % kind, 'entries %r, first uses %r' % (li_ids, first_use))
        if kind == 'citation':
            # entries (cited or "not cited") are numbered in order of first mention
            mention = list(dict.fromkeys(used['cite_mentions']))
            cited_keys = list(dict.fromkeys(used['cite']))
            if len(li_ids) == len(mention):
                pos_of_cited = [mention.index(k) for k in cited_keys]
                got_pos = [li_ids.index(h) for h in first_use]
                if got_pos != pos_of_cited:
                    raise fail('citation:list-order', 'cited entries sit at list positions %r, mention order says %r' % (got_pos, pos_of_cited))
        if kind == 'footnote':
            nums = []
            for a in calls[kind]:
                sup = a.find('sup')
                nums.append((a.get('href'), int(sup.text)))
            order = {h: n + 1 for n, h in enumerate(first_use)}
            for h, n in nums:
                if order[h[1:]] != n:
                    raise fail('footnote:numbering', 'call to %s displays %d, expected %d' % (h, n, order[h[1:]]))
        if kind == 'citation':
            order = {h: li_ids.index(h) + 1 for h in first_use}       # the displayed number is the entry's position in the list
            for a in calls[kind]:
                m = re.search(r'(\d+)\)$', text_of(a))
                if not m or int(m.group(1)) != order[a.get('href')[1:]]:
                    raise fail('citation:numbering', 'call %r to %s, expected number %d' % (text_of(a), a.get('href'), order[a.get('href')[1:]]))
        # back links
        for li in lis:
            backs = [a for a in li.iter('a') if a.get('class') == back]
            if li.get('id') not in first_use:
                continue                      # not cited: nothing to return to
            if len(backs) != 1:
                raise fail('%s:back-link-count' % kind, 'entry %s has %d back-links' % (li.get('id'), len(backs)))
            bh = backs[0].get('href', '')
            if bh[1:] not in ids:
                raise fail('%s:back-link-dangling' % kind, 'entry %s returns to %r which does not exist' % (li.get('id'), bh))
            first = ids[bh[1:]][0]
            if first.get('class') != kind or first.get('href') != '#' + li.get('id'):
                raise fail('%s:back-link-wrong-target' % kind, 'entry %s returns to %r which is not its first call' % (li.get('id'), bh))
    # expected amounts
    exp_fn = list(used['called']['fn'])
    if len(lists.get('footnotes', [])) != len(exp_fn):
        raise fail('footnote:list-size', 'expected %d footnote entries, found %d' % (len(exp_fn), len(lists.get('footnotes', []))))
    exp_c = list(used['called']['cite'])
    if len(lists.get('glossary', [])) != len(used['called']['gl']):
        raise fail('glossary:list-size', 'expected %d glossary entries, found %d' % (len(used['called']['gl']), len(lists.get('glossary', []))))
    nc = [x for x in dict.fromkeys(used['notcited']) if x not in exp_c]
    if len(lists.get('citations', [])) != len(exp_c) + len(nc):
        raise fail('citation:list-size', 'expected %d cited + %d not-cited entries, found %d' % (len(exp_c), len(nc), len(lists.get('citations', []))))
    # --- headings, TOC, cross references ---
    hels = [el for el in root.iter() if re.fullmatch(r'h[1-6]', el.tag)]
    if len(hels) != len(heads):
        raise fail('heading:count', 'expected %d headings, found %d' % (len(heads), len(hels)))
    for i, (h, el) in enumerate(zip(heads, hels)):
        if mode == 'no_labels':
            if el.get('id') is not None:
                raise fail('heading:id-with-nolabels', 'heading %d carries an id' % i)
            continue
        if el.get('id') is None:
            raise fail('heading:no-id', 'heading %d %r carries no id' % (i, h['title']))
        if mode != 'random_labels':
            exp_id = ('lab%d' % i) if h['style'] == 'manual' else label_of(h['title'])
            if el.get('id') != exp_id:
                raise fail('heading:id', 'heading %d %r has id %r, expected %r' % (i, h['title'], el.get('id'), exp_id))
    toc = [d for d in root.iter('div') if d.get('class') == 'TOC']
    # {{TOC:a-b}} / {{TOC:a}} restrict the table to headings whose level as written (before any base header level) lies in the range
    rng = case.get('toc_range')
    lo, hi = (1, 6) if not rng else (int(rng[0]), int(rng[-1]))
    raw = lambda h: 1 if h['style'] == 'set1' else 2 if h['style'] == 'set2' else h['level']
    in_toc = [el for h, el in zip(heads, hels) if lo <= raw(h) <= hi]
    if rng:
        ctx.cls('toc_ranged')
    toc_links = set()
    if toc and mode == 'no_labels':
        if list(toc[0].iter('a')):
            raise fail('toc:link-without-id', 'TOC links although headings carry no id')
        entries = [text_of(li).strip().split('\n')[0].strip() for li in toc[0].iter('li')]
        want_t = [text_of(el).strip() for el in in_toc]      # the entry shows the heading's text (a `[bracket]` at its end is literal text when labels are off, in both places)
        if entries != want_t:
            raise fail('toc:entries', 'TOC %r\nheadings %r' % (entries, want_t))
    if toc and mode != 'no_labels':
        entries = [(text_of(a).strip(), a.get('href')) for a in toc[0].iter('a')]
        toc_links = set(id(a) for a in toc[0].iter('a'))
        exp = [(text_of(el).strip(), '#' + el.get('id')) for el in in_toc]
        if entries != exp:
            raise fail('toc:entries', 'TOC %r\nheadings %r' % (entries, exp))
        ctx.cls('toc_checked')
    plain_links = [a for a in root.iter('a') if a.get('class') is None and id(a) not in toc_links]
    for text, kind, idx in refs:
        cand = [a for a in plain_links if text_of(a) == text]
        if not cand:
            raise fail('xref:unresolved:%s:%s' % (kind, heads[idx]['style'] if kind == 'head' else 'table'), 'cross-reference with text %r was not turned into a link' % text)
        tables = [el for el in root.iter('table')]
        want = '#' + (hels[idx].get('id') if kind == 'head' else (tables[0].get('id') or 'NO-ID-ON-TABLE') if tables else 'NO-TABLE')
        for a in cand:
            if a.get('href') != want:
                if mode == 'random_labels' and kind == 'head' and heads[idx]['style'] != 'manual':
                    # (was a known finding until the repair of the title-based cross-references under EXT_RANDOM_LABELS; the signature is kept)
                    raise fail('xref:wrong-target:random-labels', 'cross-reference %r links to %r, the heading carries the random id %r' % (text, a.get('href'), want))
                raise fail('xref:wrong-target:%s' % kind, 'cross-reference %r links to %r, the target carries %r' % (text, a.get('href'), want))
    if case['table'] and not any(el.get('id') for el in root.iter('table')):
        raise fail('table:no-id', 'captioned table carries no id')
    # every remaining internal href must resolve too
    for a in root.iter('a'):
        h = a.get('href', '')
        if h.startswith('#') and h[1:] not in ids:
            cls_ = a.get('class')
            if cls_ in ('reversecitation', 'reversefootnote', 'reverseglossary'):
                continue        # judged above (exempt only for not-cited entries)
            if mode == 'random_labels' and cls_ is None:
                raise fail('xref:wrong-target:random-labels', 'href %r has no target (random labels)' % h)
            raise fail('href:dangling', 'href %r (class %s) has no target' % (h, cls_))
    styles = set(h['style'] for h in heads)
    nt = (len(exp_fn) >= 2 and (len(used['fn']) > len(exp_fn) or any(x.startswith('inline') for x in exp_fn))) or (len(styles) >= 2 and refs)
    if nt:
        ctx.nontrivial(src + mode)
        ctx.sample({'mode': mode, 'source': src[:500]})


def run(tier):
    return hyp.run(__import__('props.c10', fromlist=['x']), tier, quick_s=25, thorough_s=600, chunk=200)


def replay(path):
    return hyp.replay(__import__('props.c10', fromlist=['x']), path)
