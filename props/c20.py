"""C20 — document wrapper and metadata never change the body rendering (E3, metamorphic relations)."""
import glob
import os
import re
import subprocess

from hypothesis import strategies as st

from lib import hyp, vbuild
from lib.hyp import Violation
from lib.worker import EXT
from pbt import gdoc

PROP = 'C20'
RULE = ('bodies from the G-doc grammar (safe text policy; paragraphs, headings, rules, code, quotes, lists, links, images, notes, tables) '
        'and from the repository corpus x metadata blocks {none, only rendering-control keys, 1..5 arbitrary other keys with printable '
        'single-line values, YAML-fenced} x {default, EXT_COMPLETE, EXT_SNIPPET} x {html, latex, beamer, memoir} x {smart, notes, nolabels}. '
        'Relations: R1 snippet occurs verbatim in complete and prefix/suffix do not depend on the body; R2 default is exactly one of the two, '
        'complete iff a non-control key is present; R3 other keys (any values, any order) never change the snippet; R4 control keys change '
        'only what they document (base header level shifts <hN>; language keys leave a smart-less, note-less snippet unchanged). '
        'Also: tiny bodies of emphasis markers and quotes that start at byte 0 of the text (what precedes the text -- nothing or a metadata block -- must not matter). Non-trivial: body with >=2 blocks and >=1 metadata key; distinct by (source, format, extensions).')
ASSUMPTIONS = ['a bibtex key counts for the complete-document decision like an ordinary key and for the body like a control key',
               'generated glossary definitions never cite (known finding R1:...:glossary-definition-cites, reproduced by its committed seed only)',
               'mmd header/footer and transclude base are never generated (documented to act on body/input; C06/C13 exercise them)',
               'bodies contain no [%key] variables; the first body line never has the shape `key: value`',
               'EXT_COMPLETE and EXT_SNIPPET are applied one at a time, as in the statement']

CONTROL = ['base header level', 'html header level', 'xhtml header level', 'latex header level', 'odf header level', 'epub header level',
           'language', 'quotes language', 'latex mode']
OTHER = ['title', 'author', 'date', 'keywords', 'copyright', 'css', 'latex config', 'html header', 'affiliation', 'subtitle', 'revision',
         'latex input', 'latex footer', 'my key', 'x-custom', 'comment', 'web', 'html footer', 'latex author', 'latex title']
VALS = st.one_of(
    st.sampled_from(['A Title', 'Jane "JD" Doe & sons', '2020-01-01', 'a, b; c', '[^1]', '{{TOC}}', '<b>"q"</b>', '*star* _ul_', 'style.css',
                     'article', '100%', '\\textbf{x}', 'http://example.com/?a=1&b=2', 'x: y', '中文 é']),
    st.text(alphabet=list('abcXYZ 019&<>"\'*_[](){}#$%^~\\/|`@!?;,.+-='), min_size=1, max_size=16))

CFG = gdoc.Cfg(inlines=['t', 'em', 'st', 'code', 'link', 'img', 'auto', 'esc', 'smart', 'fnref', 'gloss', 'cite'],
               blocks=['para', 'atx', 'setext', 'hr', 'fence', 'icode', 'quote', 'list', 'table', 'figure'])
KEYLINE = re.compile(r'^[A-Za-z0-9][A-Za-z0-9_ \t.\-]*:')
_corpus = None


def corpus_bodies():
    global _corpus
    if _corpus is None:
        out = []
        for p in sorted(glob.glob(os.path.join(vbuild.REPO, 'tests', 'MMD6Tests', '*.text'))):
            s = open(p, 'rb').read().decode('utf-8', 'replace')
            if len(s) > 6000 or '{{' in s or '[%' in s or '@' in s:
                continue
            # strip the file's own metadata (everything up to the first blank line when line 1 looks like metadata)
            lines = s.split('\n')
            if KEYLINE.match(lines[0]) or lines[0].startswith('---'):
                if '' in lines:
                    s = '\n'.join(lines[lines.index('') + 1:])
                else:
                    continue
            if KEYLINE.match(s.lstrip('\n').split('\n')[0]):
                continue
            out.append(s)
        _corpus = out
    return _corpus


def sanitize_val(v):
    v = v.replace('\n', ' ').rstrip('\\').strip(' \t ')
    if v == '' or v.strip('\\') == '' or v.startswith('/'):
        return 'v'
    return v


def strategy(tier):
    other = st.lists(st.tuples(st.sampled_from(OTHER), VALS), min_size=0, max_size=5, unique_by=lambda t: t[0])
    ctrl = st.lists(st.sampled_from([('language', 'de'), ('language', 'fr'), ('quotes language', 'german'), ('quotes language', 'swedish'),
                                     ('language', 'en'), ('latex mode', 'memoir'), ('bibtex', 'refs')]), max_size=2, unique_by=lambda t: t[0])
    return st.fixed_dictionaries({
        # 'tiny': a few characters over markers that look at their left neighbour, placed at the very first byte of the body (what precedes
        # byte 0 of the text -- nothing, or a metadata block -- must not matter)
        'body': st.one_of(gdoc.document(CFG), gdoc.document(CFG), st.integers(0, 200).map(lambda i: {'corpus': i}),
                          st.tuples(st.sampled_from(['', 'a', 'b', '1', 'a', '"', "'"]), st.lists(st.sampled_from(['_', '*', '_', '*', '__', '**', 'a', 'b', ' ', '"', "'", '`', '^', '~', '1', '.']), min_size=2, max_size=6))
                          .map(lambda p: (p[0] + ''.join(p[1])).strip(' ')).filter(lambda t: len(t) >= 2).map(lambda t: {'tiny': t}),
                          st.tuples(st.sampled_from(['a', 'b', '1', 'a*', 'a_']), st.sampled_from(['_', '*', '__', '**']), st.sampled_from(['b', 'b c', 'b*c', 'b_c', '']),
                                    st.sampled_from(['_', '*', '__', '**']), st.sampled_from(['', ' c', 'c', '*', '_'])).map(lambda p: {'tiny': ''.join(p)})),
        'body2': gdoc.document(CFG),
        'other': other, 'other2': other, 'ctrl': ctrl, 'yaml': st.booleans(),
        'fmt': st.sampled_from(['html', 'html', 'latex', 'beamer', 'memoir']),
        'ext': st.sampled_from([EXT['SMART'] | EXT['NOTES'], EXT['NOTES'], EXT['SMART'] | EXT['NOTES'] | EXT['NO_LABELS'], 0, EXT['SMART'] | EXT['NOTES'] | EXT['CRITIC']]),
        'bhl': st.integers(1, 4), 'perm': st.integers(0, 10 ** 6), 'cli': st.integers(0, 15),
    })


def body_text(b):
    if 'corpus' in b:
        cs = corpus_bodies()
        return cs[b['corpus'] % len(cs)], True
    if 'raw' in b:
        return b['raw'], False          # (committed seeds only)
    if 'tiny' in b:
        return b['tiny'] + ' end\n', False
    s = gdoc.ser_body(b)
    if KEYLINE.match(s.split('\n')[0]):
        s = 'lead words here\n\n' + s
    return s, False


def meta_text(pairs, yaml):
    if not pairs:
        return ''
    lines = ['%s: %s' % (k, sanitize_val(v)) for k, v in pairs]
    return ('---\n' + '\n'.join(lines) + '\n---\n\n') if yaml else ('\n'.join(lines) + '\n\n')


def check(case, ctx):
    w = ctx.w
    fmt, ext = case['fmt'], case['ext']
    B, is_corpus = body_text(case['body'])
    if '\x00' in B:
        return
    if any(k == 'bibtex' for k, _ in case['ctrl']) and not is_corpus:
        # with a bibtex key a citation key that the document does not define is left to BibTeX -- whatever the header switches say
        B = B + ('' if B.endswith('\n') else '\n') + '\ncites [#Undefined2020] and [p. 3][#Other99].\n'
        ctx.cls('bibtex_key_with_undefined_citations')
    ctx.cls('body_corpus' if is_corpus else ('body_tiny_at_byte_0' if 'tiny' in case['body'] else 'body_generated'))
    ctx.cls('fmt_' + fmt)
    other = [list(t) for t in case['other']]
    ctrl = [list(t) for t in case['ctrl']]
    # control keys and other keys in a generated order (a control key must not stop the keys after it from being read)
    import random as _random
    # (the control keys keep their own relative order: `language` also sets the quotes language, so it matters which of the two comes last)
    rnd_ = _random.Random(case['perm'] + 7)
    allkeys, o_, c_ = [], list(other), list(ctrl)
    while o_ or c_:
        allkeys.append((o_ if (o_ and (not c_ or rnd_.random() < 0.5)) else c_).pop(0))
    M = meta_text(allkeys, case['yaml'])

    def conv(src, extra=0):
        r = w.convert(src, fmt, ext | extra)
        if r.status != 'ok':
            raise Violation('convert:' + r.status, repr(src))
        return r.text

    snip = conv(M + B, EXT['SNIPPET'])
    comp = conv(M + B, EXT['COMPLETE'])
    dflt = conv(M + B)
    # R1: snippet verbatim inside complete
    core = snip[:-1] if snip.endswith('\n') else snip
    idx = comp.find(core)
    if idx < 0 and fmt in ('latex', 'beamer', 'memoir') and re.search(r'(?m)^\[\?[^\]]+\]:.*\[#', B):
        # known finding: the complete LaTeX document prints the glossary definitions in its preamble, and a citation inside one is
        # registered there, before the citations of the body: the bibliography of the complete document is ordered differently
        raise Violation('R1:snippet-not-in-complete:glossary-definition-cites', 'fmt=%s\nsource=%r\nsnippet=%r\ncomplete=%r' % (fmt, M + B, snip[-500:], comp[-700:]))
    if idx < 0:
        raise Violation('R1:snippet-not-in-complete', 'fmt=%s ext=%#x\nsource=%r\nsnippet=%r\ncomplete=%r' % (fmt, ext, M + B, snip[-600:], comp[-900:]))
    # R2: default is one of the two; complete iff an "other" key is present
    want_complete = bool(other) or any(k == 'bibtex' for k, _ in ctrl)       # (a bibtex key asks for a complete document like any ordinary key)
    if dflt not in (snip, comp):
        raise Violation('R2:default-neither', 'fmt=%s source=%r\ndefault=%r' % (fmt, M + B, dflt[:600]))
    if comp != snip:
        is_complete = dflt == comp
        if is_complete != want_complete:
            raise Violation('R2:complete-decision', 'fmt=%s keys=%r expected complete=%s, got complete=%s' % (fmt, other + ctrl, want_complete, is_complete))
    # R3: other keys never change the snippet
    base_snip = conv(meta_text(ctrl, case['yaml']) + B, EXT['SNIPPET'])
    if snip != base_snip:
        raise Violation('R3:other-keys-change-snippet', 'fmt=%s keys=%r\nwith=%r\nwithout=%r\nsource=%r' % (fmt, other, snip[:500], base_snip[:500], M + B))
    other2 = [list(t) for t in case['other2']]
    if other2:
        s2 = conv(meta_text(other2 + ctrl, not case['yaml']) + B, EXT['SNIPPET'])
        if s2 != snip:
            raise Violation('R3:other-keys-change-snippet', 'fmt=%s keys2=%r\n%r\n%r' % (fmt, other2, s2[:500], snip[:500]))
    if len(other) >= 2:
        perm = list(other)
        import random
        random.Random(case['perm']).shuffle(perm)
        d2 = conv(meta_text(perm + ctrl, case['yaml']) + B)
        c2 = conv(meta_text(perm + ctrl, case['yaml']) + B, EXT['COMPLETE'])
        if (d2 == c2) != (dflt == comp):
            raise Violation('R3:key-order-changes-decision', 'fmt=%s keys=%r perm=%r' % (fmt, other, perm))
    # R1b: prefix / suffix of the wrapper do not depend on the body (generated bodies only: no bibliography/glossary material)
    if not is_corpus and other and '[?' not in B and '[#' not in B and '[?' not in body_text(case['body2'])[0] and '[#' not in body_text(case['body2'])[0]:
        # (glossary and bibliography entries are written into the LaTeX preamble / back matter: wrapper text that does come from the body)
        B2, _ = body_text(case['body2'])
        snip2 = conv(M + B2, EXT['SNIPPET'])
        comp2 = conv(M + B2, EXT['COMPLETE'])
        core2 = snip2[:-1] if snip2.endswith('\n') else snip2
        j = comp2.find(core2)
        if j < 0:
            raise Violation('R1:snippet-not-in-complete', 'second body; fmt=%s source=%r' % (fmt, M + B2))
        # blank-line padding between body and wrapper depends on the last/first block; only the wrapper text itself is compared
        # (a snippet that also occurs inside the wrapper -- a one-character body, a word of the title -- does not say where the body sits: the
        # split is only meaningful when the snippet occurs once)
        if core and core2 and comp.count(core) == 1 and comp2.count(core2) == 1 and (comp[:idx].rstrip() != comp2[:j].rstrip() or comp[idx + len(core):].lstrip() != comp2[j + len(core2):].lstrip()):
            raise Violation('R1:wrapper-depends-on-body', 'fmt=%s meta=%r\nprefix1=%r\nprefix2=%r\nsuffix1=%r\nsuffix2=%r' % (fmt, M, comp[:idx][-300:], comp2[:j][-300:], comp[idx + len(core):][:300], comp2[j + len(core2):][:300]))
        ctx.cls('R1b_checked')
    # R4a: language keys leave a smart-less, note-free snippet unchanged
    if ctrl and not (ext & EXT['SMART']) and '[^' not in B and '[#' not in B and '[?' not in B and '[>' not in B:
        plain = conv(B, EXT['SNIPPET'])
        lang_only = [c for c in ctrl if c[0] != 'latex mode']
        if lang_only:
            s4 = conv(meta_text(lang_only, case['yaml']) + B, EXT['SNIPPET'])
            if s4 != plain:
                raise Violation('R4:language-key-changes-body', 'fmt=%s keys=%r\n%r\n%r' % (fmt, lang_only, s4[:400], plain[:400]))
            ctx.cls('R4_language_checked')
    # R4b: base header level shifts headings and nothing else (HTML)
    if fmt == 'html' and not is_corpus:
        n = case['bhl']
        plain = conv(B, EXT['SNIPPET'])
        levels = [int(x) for x in re.findall(r'<h([1-6])[ >]', plain)]
        if levels and max(levels) + n - 1 <= 6:
            shifted = conv(meta_text([['base header level', str(n)]], case['yaml']) + B, EXT['SNIPPET'])
            exp = re.sub(r'<(/?)h([1-6])([ >])', lambda m: '<%sh%d%s' % (m.group(1), int(m.group(2)) + n - 1, m.group(3)), plain)
            if shifted != exp:
                raise Violation('R4:base-header-level', 'n=%d\nexpected=%r\ngot=%r' % (n, exp[:600], shifted[:600]))
            ctx.cls('R4_base_header_level_checked')
    nblocks = B.count('\n\n') + 1
    if nblocks >= 2 and (other or ctrl):
        ctx.nontrivial(M + B + fmt + str(ext))
        ctx.sample({'meta': M, 'body': B[:300], 'fmt': fmt, 'ext': ext})
    # CLI leg: -f / -s / default
    if case['cli'] == 0 and ext == (EXT['SMART'] | EXT['NOTES']) and '{{' not in B and '{' not in M:
        cli = vbuild.cli('asan')
        env = dict(os.environ, ASAN_OPTIONS='detect_leaks=0')
        # the CLI default set: smart|notes|critic|transclude  (critic/transclude are inert without their syntax)
        if '{++' in B or '{--' in B or '{~~' in B or '{==' in B or '{>>' in B:
            return
        for flag, expd in ((['-s'], snip), (['-f'], comp), ([], dflt)):
            p = subprocess.run([cli, '-t', fmt] + flag, input=(M + B).encode('utf-8'), stdout=subprocess.PIPE, stderr=subprocess.PIPE, env=env)
            got = p.stdout.decode('utf-8', 'replace')
            if p.returncode != 0 or got != expd:
                raise Violation('cli:%s' % (''.join(flag) or 'default'), 'fmt=%s source=%r\ncli=%r\nlib=%r' % (fmt, M + B, got[:500], expd[:500]))
        ctx.cls('cli_leg_checked')


def prebuild():
    vbuild.cli('asan')


def run(tier):
    return hyp.run(__import__('props.c20', fromlist=['x']), tier, quick_s=25, thorough_s=600, chunk=200)


def replay(path):
    return hyp.replay(__import__('props.c20', fromlist=['x']), path)
