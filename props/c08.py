"""C08 — XML-based outputs are well-formed for every input (E3: real XML parser + containment of hostile payloads)."""
import io
import re
import xml.parsers.expat as expat
import zipfile

from hypothesis import strategies as st

from lib import hyp, worker as wk
from lib.hyp import Violation
from lib.worker import EXT
from pbt import gdoc

PROP = 'C08'
RULE = ('G-doc documents under the hostile text policy: every word is a sentinel-wrapped payload qNNa<payload>0NNq with payloads over & < > " \' '
        'and combinations ("><x y=", ]]>, --, numeric and XML entities, CriticMarkup and math delimiters, multi-byte text), placed in every slot: '
        'paragraph, heading, list item, table cell, link text, link title, URL, image alt/title, footnote, code span/block, fence language, '
        'metadata value; valid UTF-8 without control characters; no raw HTML tags and no user-typed named entities (raw passthrough is outside the '
        'statement). Outputs: OPML, FODT, ITMZ mapdata.xml, every .xml member of ODT, and container.xml / main.opf / nav.xhtml / main.xhtml of EPUB, '
        'x {default, no notes/critic, smart off, compatibility}. Oracle: the member parses with expat, a non-validating XML parser; no element or attribute NAME contains a sentinel, and every name belongs to the vocabulary of the format (a payload that '
        'closed its attribute or element would create foreign markup). A second case kind fills ONE slot (heading, metadata value, URL, alt text, note, caption, definition, label, citation locator, fence info, abbreviation) with 150..320 letters plus a tail character whose last byte is 0xA0 / 0x85; link and image attribute lists repeat a name or use one the writer prints itself; payloads include hexadecimal-reference look-alikes (&#xZZ;). Non-trivial: document with a hostile character in >=2 different slots, one of them an attribute slot; distinct by source.')
ASSUMPTIONS = ['`<` is never followed by a letter, `/`, `!` or `?` (that would be user-written raw HTML), except for an unmatched comment opener `<!--`, which is text and `&` never starts a named entity',
               'expat (non-validating) is exactly "well-formed"; the escaped space `\\ ` (known finding: &nbsp; in EPUB XHTML) is never generated',
               'containment is judged on names: the generator writes no raw HTML, so an element/attribute outside the format vocabulary can only come from a payload that broke out']

# only unmatched halves of paired Markdown/CriticMarkup delimiters are used, so that two words can never form real markup between them
PAYLOADS = ['<!--', '&', '<', '>', '"', "'", ' & ', ' < ', ' > ', '"><x y="', "'><x y='", '--', '-->', '<<}', '<<', '&#60;', '&amp;', '&lt;', '& #', '&&', '<>', '</', '<=',
            '1 < 2 > 0', 'é中', '😀', 'tab\there', '\\)', '~>', '++}', '==}', 'a&b', 'x"y', "x'y", '<3', '&;', '& ;', '%', '\\', '&#x[;', '&#xZZ;', '&#x41;', '&#xg1;', '&#x_;']
ATTR_PAYLOADS = ['&', '"', "'", '<', '>', 'a&b', 'x"y', "it's", '1<2', '">', "'>"]
LANGS = ['python', 'c++', 'a"b', 'x&y', 'a<b', 'plain text']      # an apostrophe is not accepted in a fence info string (the line is then no fence opener)


def word():
    return st.tuples(st.integers(0, 99), st.sampled_from(PAYLOADS)).map(lambda t: 'q%da%s0%dq' % (t[0], t[1], t[0]))


EXCLUDED = {'n': 0}


def safe_for_code(w):
    """Inside verbatim regions (code spans/blocks, math) the OpenDocument writer prints the CriticMarkup comment markers and the
    substitution divider raw -- a known finding whose stored expectation (CriticMarkup.fodt) pins the ill-formed output.  Those three
    marker strings are therefore kept out of verbatim payloads (counted), so that the search goes on behind the finding."""
    w2 = w.replace('`', "'")
    for m, r in (('<<}', '<< }'), ('{>>', '{ >>'), ('~>', '~ >')):
        if m in w2:
            EXCLUDED['n'] += 1
            w2 = w2.replace(m, r)
    return w2


URLS = st.tuples(st.integers(0, 99), st.sampled_from(['&', '"', "'", '<', '>', 'a&b=c', '%22', '&amp;'])).map(lambda t: 'http://e.x/q%da%s0%dq' % (t[0], t[1], t[0]))
TITLES = st.one_of(st.none(), st.tuples(st.integers(0, 99), st.sampled_from(['&', '<', '>', 'a&b', '1<2', '>x<', '\t'])).map(lambda t: 'q%da%s0%dq' % (t[0], t[1], t[0])))   # no quote characters: they delimit the title
IMGS = st.tuples(st.integers(0, 99), st.sampled_from(['&', "'", 'a&b', '%20', '<', '>'])).map(lambda t: 'img/q%da%s0%dq.png' % (t[0], t[1], t[0]))
NUMERIC_KEYS = ['Base Header Level', 'HTML Header Level', 'ODF Header Level', 'EPUB Header Level']
META = st.lists(st.tuples(st.sampled_from(['Title', 'Author', 'Date', 'Keywords', 'My Key', 'language', 'css', 'latex config', 'Subtitle', 'uuid', 'Copyright', 'Affiliation',
                                           'Revision', 'BibTeX', 'Quotes Language'] + NUMERIC_KEYS),
                          st.tuples(st.integers(0, 99), st.sampled_from(ATTR_PAYLOADS + ['<b>', '</title>', '--', '#-5', '#0', '#3', '#7', '#99999', '#32700', '#x']))), max_size=5, unique_by=lambda t: t[0]) \
    .map(lambda m: [[k, (p[1:] if p.startswith('#') else 'q%da%s0%dq' % (n, p, n))] for k, (n, p) in m] or None)
CFG = gdoc.Cfg(words=word(), inlines=['t', 'em', 'st', 'code', 'link', 'img', 'esc', 'bare', 'fnref', 'ifn', 'imath', 'cite', 'gloss', 'auto', 'email', 'critic', 'reflink'],
               blocks=['para', 'atx', 'setext', 'hr', 'fence', 'icode', 'quote', 'list', 'table', 'figure', 'deflist', 'toc'],
               code=word().map(safe_for_code), codelines=word().map(safe_for_code), urls=URLS, titles=TITLES, images=IMGS, meta=META,
               langs=st.sampled_from([None] + LANGS), cell_inlines=['t', 'em', 'code', 'img', 'link', 'fnref'], cell_pad=st.booleans())
EXTS = [wk.EXT_DEFAULT, wk.EXT_DEFAULT & ~EXT['SMART'], EXT['SMART'], wk.EXT_COMPAT, wk.EXT_DEFAULT | EXT['COMPLETE'], wk.EXT_DEFAULT | EXT['CRITIC_ACCEPT'], wk.EXT_DEFAULT | EXT['NO_LABELS'],
        wk.EXT_DEFAULT | EXT['OBFUSCATE'], wk.EXT_COMPAT | EXT['OBFUSCATE'], wk.EXT_DEFAULT | EXT['CRITIC_REJECT'], wk.EXT_DEFAULT | EXT['RANDOM_FOOT'] | EXT['RANDOM_LABELS'],
        wk.EXT_DEFAULT | EXT['COMPLETE'] | EXT['OBFUSCATE'], wk.EXT_DEFAULT | EXT['NO_META']]


# second case kind: one slot filled with a long run of letters whose length sweeps the sizes at which formatted output crosses internal buffers,
# ending in a character whose last UTF-8 byte could be mistaken for white space (0xA0) or a line ending (0x85): the element or attribute that
# receives the slot must still be closed and the bytes must still be one well-formed document
SWEEP_TEMPLATES = ['# %s\n\ntext\n', '%s\n=====\n\ntext\n', 'Title: %s\n\nbody\n', 'Author: %s\nTitle: t\n\nbody\n', 'text [a](http://e.x/%s) more\n', '![%s](i.png)\n',
                   'text[^n] more\n\n[^n]: %s\n', '## %s ##\n\n{{TOC}}\n', '| a |\n| - |\n| c |\n[%s]\n', 'term\n: %s\n', '[%s]: http://e.x/ "t"\n\n[%s][] x\n', 'a [%s][#k]\n\n[#k]: ref\n',
                   '```%s\ncode\n```\n', 'x [>%s] y\n\n[>%s]: expansion\n']
SWEEP = st.fixed_dictionaries({'sweep': st.tuples(st.sampled_from(SWEEP_TEMPLATES), st.integers(150, 320), st.sampled_from(['', '', 'à', 'Р', 'é', '中', '…', 'ą'])),
                               'ext': st.sampled_from(EXTS), 'lang': st.integers(0, 6), 'packages': st.integers(0, 3), 'attrs': st.integers(0, 13)})


def strategy(tier):
    return st.one_of(st.fixed_dictionaries({'doc': gdoc.document(CFG), 'ext': st.sampled_from(EXTS), 'lang': st.integers(0, 6), 'packages': st.integers(0, 3), 'attrs': st.integers(0, 13)}),
                     st.fixed_dictionaries({'doc': gdoc.document(CFG), 'ext': st.sampled_from(EXTS), 'lang': st.integers(0, 6), 'packages': st.integers(0, 3), 'attrs': st.integers(0, 13)}), SWEEP)


RAW_HTML = re.compile(r'<(?!!--)(?![A-Za-z][A-Za-z0-9+.\-]*:[^\s<>]*>)(?![^\s<>@]+@[^\s<>]+>)[A-Za-z/!?]')      # automatic links <scheme:...> and <user@host> are not raw HTML
NAMED_ENT = re.compile(r'&[A-Za-z][A-Za-z0-9]*;')
SENT_A = re.compile(r'q(\d+)a')


def sanitize(src):
    """Keep the generated source inside the statement's domain (no raw HTML, no user-typed named entities other than the 5 XML ones)."""
    src = RAW_HTML.sub(lambda m: '< ' + m.group(0)[1:], src)
    if '<!--' in src and '-->' in src:
        src = src.replace('-->', '-- >')      # an unmatched comment opener is ordinary text; opener + closer would be a raw HTML comment (outside the statement)
    src = NAMED_ENT.sub(lambda m: m.group(0) if m.group(0) in ('&amp;', '&lt;', '&gt;', '&quot;', '&apos;') else '& ' + m.group(0)[1:], src)
    return ''.join(c for c in src if c in '\t\n\r' or ord(c) >= 0x20)


def parse(member, data, xhtml=False):
    """Returns (strings, names) of the parsed document or raises expat.ExpatError."""
    strings, names = [], []
    cur = []
    p = expat.ParserCreate()

    WS = ('text:tab', 'text:s', 'text:line-break')      # ODF spells white space as empty elements: they do not end a text run

    def start(name, attrs):
        if name in WS:
            cur.append('\t' if name == 'text:tab' else ' ')
            return
        if cur:
            strings.append(''.join(cur)); del cur[:]
        names.append(name)
        for k, v in attrs.items():
            names.append(k)
            strings.append(v)

    def end(name):
        if name in WS:
            return
        if cur:
            strings.append(''.join(cur)); del cur[:]

    p.StartElementHandler, p.EndElementHandler, p.CharacterDataHandler = start, end, cur.append
    p.Parse(data, True)
    return strings, names


def judge(member, data, src, xhtml=False):
    try:
        strings, names = parse(member, data, xhtml)
    except expat.ExpatError as e:
        line = data.split(b'\n')[e.lineno - 1] if 0 < e.lineno <= data.count(b'\n') + 1 else b''
        ctxt = line[max(0, e.offset - 80):e.offset + 60].decode('utf-8', 'replace')
        slot = classify_slot(ctxt)
        raise Violation('not-well-formed:%s:%s' % (member, slot), '%s: %s\nnear: %r\nsource=%r' % (member, e, ctxt, src))
    for n in names:
        if SENT_A.search(n):
            raise Violation('breakout:name:%s' % member, 'a sentinel ended up in an element/attribute name %r\nsource=%r' % (n, src))
    # containment: a payload that closed its attribute or element would have created markup of its own -- every element and attribute
    # name must belong to the vocabulary of the format (the generator writes no raw HTML, so nothing else can introduce names)
    for n in names:
        if not in_vocabulary(member, n):
            raise Violation('breakout:foreign-name:%s' % member.split(':')[0], 'element/attribute name %r is not part of the format: document text created markup\nsource=%r' % (n, src))


HTML_NAMES = set("""html head meta title link body p h1 h2 h3 h4 h5 h6 a em strong code pre ul ol li blockquote hr br img figure figcaption table caption colgroup col thead
 tbody tfoot tr th td div span sup sub dl dt dd nav del ins mark abbr section id class href src alt title style charset name content xmlns lang type rel epub:type xmlns:epub colspan
 rowspan width height property""".split())
OPF_NAMES = set("""package metadata dc:identifier dc:title dc:language dc:creator dc:date dc:subject dc:rights dc:publisher dc:description meta manifest item spine itemref container
 rootfiles rootfile version unique-identifier xmlns:dc property idref properties href id media-type xmlns full-path""".split())
OPML_NAMES = set('opml head title body outline version text _note'.split())
ITMZ_NAMES = set('iThoughts topics topic text note uuid position floating color shape'.split())
ODF_PREFIXES = set("""office text table draw style fo svg xlink dc meta number config manifest math form script ooo ooow oooc dom xforms xsd xsi rpt of xhtml grddl officeooo tableooo
 drawooo calcext loext field formx css3t chart dr3d presentation anim smil xmlns""".split())


def in_vocabulary(member, name):
    if member.startswith('opml'):
        return name in OPML_NAMES
    if member.startswith('itmz'):
        return name in ITMZ_NAMES
    if member.startswith('epub'):
        if member.endswith('.xhtml'):
            return name in HTML_NAMES or re.fullmatch(r'h\d+', name) is not None      # a base header level pushes headings past h6
        return name in OPF_NAMES
    return ':' in name and name.split(':')[0] in ODF_PREFIXES         # fodt / odt members


def classify_slot(ctxt):
    for pat, name in ((r'xlink:href="[^"]*$', 'xlink-href'), (r'src="[^"]*$', 'img-src'), (r'alt="[^"]*$', 'img-alt'), (r'title="[^"]*$', 'title-attr'), (r'class="[^"]*$', 'class-attr'),
                      (r'lang="[^"]*$', 'lang-attr'), (r'href="[^"]*$', 'href'), (r'svg:(width|height)="[^"]*$', 'svg-dim'), (r'content="[^"]*$', 'meta-content'),
                      (r'_note="[^"]*$', 'opml-note'), (r'text="[^"]*$', 'text-attr'), (r'&nbsp;', 'nbsp-entity'), (r'draw:frame', 'draw-frame'), (r'<<|\{>>|<<\}', 'critic-marker')):
        if re.search(pat, ctxt):
            return name
    return 'text'


def check(case, ctx):
    w = ctx.w
    if 'sweep' in case:
        tpl, n, tail = case['sweep']
        fill = ('word' * (n // 4 + 1))[:n] + tail
        src = tpl.replace('%s', fill)
        ctx.cls('length_sweep_cases')
    else:
        src = sanitize(gdoc.ser_doc(case['doc']))
    # link attributes on reference definitions carry payloads as well (values are quoted, so everything but the quote itself)
    # (also: a name used twice, and names the writer prints itself -- an element can carry each attribute once only)
    ATTRS = [' class="q7a<&>07q" width=40px', ' width=10 width=20', ' class=x class="y" id=z', ' id=x src=y title=z alt=q', ' href=v title=w', ' style="border:0" height=3em', ' width="50%" style=a']
    pick = case.get('attrs', 0)
    src = re.sub(r'(?m)^(\[(?:ref1|Ref Two|r-3)\]: \S+(?: "[^"\n]*")?)$', lambda m: m.group(1) + ATTRS[(pick + len(m.group(1))) % len(ATTRS)], src)
    if pick:
        src += '\n\n![alt text](pic.png "t"%s) and [link text](http://e.x/ "t"%s)\n' % (ATTRS[pick % len(ATTRS)], ATTRS[(pick + 3) % len(ATTRS)])
    if case.get('attrs', 0) % 2 == 1 and 'sweep' not in case:
        # notes whose NAME carries reserved characters, each used twice (the second use of a note takes a different branch in every writer)
        # (`<` is never followed by a letter: that would be user-written raw HTML wherever the note syntax is switched off)
        src += ('\n\nUses [?R&D <1> "unit"] twice [?R&D <1> "unit"], [>AT&T] twice [>AT&T], [>A<2] twice [>A<2], and a citation[#K&R<78>] twice[#K&R<78>].\n\n'
                '[?R&D <1> "unit"]: glossary text & more\n\n[>AT&T]: expansion <3> it\n\n[>A<2]: second expansion\n\n[#K&R<78>]: Kernighan & Ritchie <1978>\n')
        ctx.cls('reused_notes_with_reserved_characters_in_their_names')
    ext, lang = case['ext'], case['lang']
    ctx.cls('ext_%#x' % ext)
    slots = 0
    attr_slot = bool(re.search(r'\]\([^)]*q\d+a|^\[r?\d*\]:|\n[A-Za-z ]+: q\d+a|```\S', src))
    for pat in (r'^#+ .*q\d+a.*[&<>"\']', r'\|.*[&<>"\']', r'^[*+-] .*[&<>"\']', r'`[^`]*[&<>"\']', r'\[\^'):
        if re.search(pat, src, re.M):
            slots += 1
    outs = []
    r = w.convert(src, 'opml', ext, lang)
    outs.append(('opml', r.out, False))
    r = w.convert(src, 'fodt', ext, lang, api='sd')
    outs.append(('fodt', r.out, False))
    pk = case['packages']
    if pk in (0, 1):
        r = w.convert(src, 'itmz', ext, lang, api='sd')
        z = zipfile.ZipFile(io.BytesIO(r.out))
        outs.append(('itmz:mapdata.xml', z.read('mapdata.xml'), False))
    if pk in (0, 2):
        r = w.convert(src, 'epub', ext, lang, api='sd')
        z = zipfile.ZipFile(io.BytesIO(r.out))
        for n in z.namelist():
            if n.endswith(('.xml', '.opf', '.xhtml')):
                outs.append(('epub:' + n, z.read(n), n.endswith('.xhtml')))
    if pk in (0, 3):
        r = w.convert(src, 'odt', ext, lang, api='sd')
        z = zipfile.ZipFile(io.BytesIO(r.out))
        for n in z.namelist():
            if n.endswith('.xml'):
                outs.append(('odt:' + n, z.read(n), False))
    if EXCLUDED['n']:
        ctx.cls('excluded_by_construction:critic-marker-in-verbatim-payload', EXCLUDED['n'])
        EXCLUDED['n'] = 0
    for member, data, xhtml in outs:
        judge(member, data, src, xhtml)
        ctx.cls('parsed_' + member.split(':')[0])
    if slots >= 1 and attr_slot:
        ctx.nontrivial(src)
        ctx.sample(src[:500])


def run(tier):
    return hyp.run(__import__('props.c08', fromlist=['x']), tier, quick_s=30, thorough_s=600, chunk=150)


def replay(path):
    return hyp.replay(__import__('props.c08', fromlist=['x']), path)
