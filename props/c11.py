"""C11 — metadata is reported, extracted and updated faithfully (E3, model-based)."""
import html as htmlmod
import re

from hypothesis import strategies as st

from lib import hyp
from lib.hyp import Violation
from lib.worker import EXT

PROP = 'C11'
RULE = ('Hypothesis-generated metadata blocks: 1..6 (key,value) entries; keys from the documented key grammar (letters, digits, '
        'blanks, . _ -, mixed case); values over printable ASCII incl. & : " < > and multi-byte characters, leading/trailing/multiple '
        'blanks, 0..2 continuation lines; plain or YAML-fenced; LF or CRLF; ended by blank line+body, EOF with newline, EOF without '
        'newline; then 0..4 update operations (existing key in another spelling, new key, NULL value) through the string, DString, '
        'one-shot engine and one long-lived engine. Oracle: reference model norm_key/norm_val for has_metadata+end offset, key '
        'listing, value lookup by any equivalent key spelling, read-back after update, other keys/body unchanged, and the values in '
        'the complete HTML header. Also: continuation lines that are whole HTML elements or (indented) key-shaped text, white space at the end of metadata lines, a one-space indent, opening fences of 1..7 dashes (below three the queries and the conversion only have to agree), a key-shaped line glued to the closing fence (it is body). Non-trivial: >=2 keys with a value containing & : a multi-byte character or a continuation line, '
        'or >=1 update; distinct by (source, ops).')
ASSUMPTIONS = ['keys are ASCII (by the syntax); normalised keys are unique within a block',
               'documented precedences are respected by construction: first value not blank; a line scanning as a URL or as an '
               'enumerated list item is not a key line; continuation lines contain an alphanumeric character, no colon, no list marker; '
               'no backslash directly before a line break (hard-break escape)',
               'an update never sets the FIRST key to an empty value (documented: an empty first value means "not metadata")',
               'the model is the Python code in props/c11.py']

KEY1 = 'abXYqz'
KEYCH = 'abcXYZ019 ._-'
SPECIAL = {'baseheaderlevel', 'bibliostyle', 'bibtex', 'css', 'htmlfooter', 'htmlheader', 'htmlheaderlevel', 'language', 'latexbegin',
           'latexconfig', 'latexfooter', 'latexheader', 'latexheaderlevel', 'latexinput', 'latexleader', 'latexmode', 'mmdfooter',
           'mmdheader', 'odfheader', 'quoteslanguage', 'title', 'transcludebase', 'xhtmlheader', 'xhtmlheaderlevel',
           'epubheaderlevel', 'odfheaderlevel', 'latextitle', 'latexauthor'}
VALCH = list('abc XYZ09&:;,.<>"\'*_#[]()!?/=+-~$%^{}|`@\\') + ['é', 'à', ' ', '中', '😀', '\t', ' ', ' ', 'e', 'o']


def norm_key(k):
    return ''.join(c.lower() for c in k if (c.isascii() and c.isalnum()) or c in '._-')


def norm_val(lines):
    return re.sub(r'[ \t\r\n]+', ' ', ' '.join(lines)).strip(' ')


key = st.tuples(st.sampled_from(KEY1), st.text(alphabet=KEYCH, max_size=8)).map(lambda p: (p[0] + p[1]).rstrip(' \t'))
realkeys = st.sampled_from(['Title', 'Author', 'Date', 'Keywords', 'Copyright', 'Affiliation', 'Revision', 'My Key', 'x-custom.key_1'])
anykey = st.one_of(key, key, realkeys)
val1 = st.text(alphabet=VALCH, min_size=1, max_size=14)
URLS = st.sampled_from(['http://creativecommons.org/licenses/by/4.0/', 'https://example.org/a?b=1', 'ftp://files.example.com/x'])
# continuation lines that other line scanners could claim: a whole block-level HTML element, and (indented only) text shaped like a key line
HTMLC = st.sampled_from(['<footer class="f">me</footer>', '<div>x</div>', '<hr>', '<p>para</p>', '<table><tr><td>c</td></tr></table>'])
KEYSHAPED = st.sampled_from(['see also: the appendix', 'note: x', 'a b: c'])
entry = st.tuples(anykey, val1, st.lists(st.one_of(val1, val1, URLS, HTMLC, KEYSHAPED), max_size=2), st.sampled_from([' ', '\t', '  ', '', ' \t ']), st.sampled_from(['', '  ', '\t', '    ', ' ', ' ']))
opst = st.tuples(st.sampled_from(['existing', 'existing', 'new']), st.integers(0, 7), st.integers(0, 3), st.one_of(val1, val1, st.none()), anykey)


def strategy(tier):
    return st.fixed_dictionaries({
        'entries': st.lists(entry, min_size=1, max_size=6),
        'term': st.sampled_from(['body', 'body', 'eofnl', 'eof']),
        'nl': st.sampled_from(['\n', '\n', '\r\n']),
        'yaml': st.sampled_from([0, 0, 1]),
        'trail': st.sampled_from(['', '', '  ', ' ', '\t', '   ']),     # white space at the end of every metadata line (two blanks make a hard line break elsewhere)
        'glued': st.sampled_from([False, False, True]),     # a key-shaped line directly after the closing fence (no blank line): it belongs to the body
        'dashes': st.sampled_from([3, 3, 3, 4, 7, 2, 1]),     # length of the opening fence; below three dashes the line is no fence, and then queries and conversion must agree on that
        'body': st.sampled_from(['Body text here.', '# Heading\n\ntext *em* &amp; more', 'a: not meta\n\n* list', '   indented body', '中文 body']),
        'ops': st.lists(opst, max_size=4),
        'blank': st.sampled_from(['', '', '', '\t', ' \t', '    \t', '   ', ' ', '\t\t']),      # the "blank" line that ends the block may hold white space
        'dup': st.sampled_from([None, None, None, 0, 1, 2]),      # repeat entry i's key once more at the end of the block (lookups return the first occurrence)
        'family': st.sampled_from(['s', 'd', 'e', 'E']),
    })


def respell(k, how):
    """Another spelling with the same normalised key."""
    if how == 0:
        return k
    if how == 1:
        return k.upper()
    if how == 2:
        return ' '.join(k)          # blanks between all characters
    return k.lower().replace(' ', '')


def sanitize_value(v, first_line=True, sep=' '):
    """Apply the documented precedences by construction (returns None if the value cannot be used)."""
    v = v.rstrip('\\')                               # no backslash directly before the line break
    core = v.strip(' \t ')
    if core == '' or core.strip('\\') == '':
        return None
    if first_line and sep == '' and core.startswith('/'):
        return None                                  # key://...  scans as a URL, not as metadata
    return v


def sanitize_cont(c, ind=''):
    c = c.rstrip('\\')
    if c in ('see also: the appendix', 'note: x', 'a b: c'):
        return c if ind else None          # a key-shaped line continues the value only when it is indented
    if re.fullmatch(r'(https?|ftp)://[A-Za-z0-9./?=_-]+', c):
        return c          # a line that scans as a URL is not a key line (documented precedence), so it continues the value, indented or not
    if ':' in c or not any(ch.isascii() and ch.isalnum() for ch in c):
        return None
    if re.match(r'^\s*([-*+]|\d+\.)(\s|$)', c):
        return None
    if c.strip(' \t ') == '' or re.fullmatch(r'[\s\-=.]*', c):
        return None
    return c


def build(case):
    """Returns (source, ordered [(key, normkey, [value lines])], end_offset, body_text) or None if the case is unusable."""
    nl = case['nl']
    ents = []
    seen = set()
    for (k, v, cont, sep, ind) in case['entries']:
        nk = norm_key(k)
        if not nk or nk in seen or re.match(r'^\d+\.(\s|$)', k):
            continue
        v2 = sanitize_value(v, True, sep)
        if v2 is None:
            continue
        conts = [c2 for c2 in (sanitize_cont(c, ind) for c in cont) if c2 is not None]
        seen.add(nk)
        ents.append((k, nk, sep, v2, ind, conts))
    if not ents:
        return None
    if case.get('dup') is not None:
        k, nk, sep, v2, ind, conts = ents[case['dup'] % len(ents)]
        ents.append((respell(k, case['dup'] % 4), nk, ' ', 'second occurrence', '', []))
    lines = []
    for (k, nk, sep, v, ind, conts) in ents:
        lines.append(k + ':' + sep + v + case.get('trail', ''))
        for c in conts:
            lines.append(ind + c + case.get('trail', ''))
    src = ''
    fence_open = {0: None, 1: '-' * case.get('dashes', 3), 2: '---'}[case['yaml']]
    fence_close = {0: None, 1: '---', 2: '...'}[case['yaml']]
    if fence_open:
        src += fence_open + nl
    src += nl.join(lines)
    if fence_close:
        src += nl + fence_close
    term = case['term']
    body = ''
    if term == 'body':
        src += nl
        end = len(src.encode())
        body = case.get('blank', '') + nl + case['body'].replace('\n', nl) + nl
        if fence_close == '---' and case.get('glued') and case.get('dashes', 3) >= 3:
            body = 'glued: line after the fence' + nl + body
        src += body
    elif term == 'eofnl':
        src += nl
        end = len(src.encode())
    else:
        end = len(src.encode())
    return src, [(k, nk, [v] + conts) for (k, nk, sep, v, ind, conts) in ents], end, body


class Api:
    """Uniform access to the four API families; 'E' is one long-lived engine that sees every call of the case."""
    def __init__(self, w, fam, src):
        self.w, self.fam, self.src = w, fam, src
        self.eid = None
        if fam == 'E':
            w.call('pool', 'init')
            self.eid = w.call('enew', 0, src)[1]

    def close(self):
        if self.eid is not None:
            self.w.call('efree', self.eid)
            self.w.call('pool', 'drain')

    def has(self):
        r = self.w.call('ehas', self.eid) if self.eid else self.w.meta(self.fam, 'has', self.src)
        return r[1] == b'1', int(r[2])

    def keys(self):
        r = self.w.call('ekeys', self.eid) if self.eid else self.w.meta(self.fam, 'keys', self.src)
        return None if r[0] == b'null' else r[1].decode('utf-8', 'replace')

    def value(self, k):
        r = self.w.call('evalue', self.eid, k) if self.eid else self.w.meta(self.fam, 'value', self.src, k)
        return None if r[0] == b'null' else r[1].decode('utf-8', 'replace')

    def update(self, k, v):
        if self.eid:
            r = self.w.call('eupdate', self.eid, k, v or '', '1' if v is None else '0')
        else:
            r = self.w.meta(self.fam, 'update', self.src, k, v or '', v is None)
        self.src = r[1].decode('utf-8', 'surrogateescape')
        return self.src

    def html(self):
        if self.eid:
            return self.w.call('econv', self.eid, 'e', 0, '')[1].decode('utf-8', 'replace')
        return self.w.convert(self.src, 'html', EXT['COMPLETE'] | EXT['NOTES'], api=self.fam).text


def check_block(api, ents, end, tail, where, src, fenced=False):
    has, e = api.has()
    if not has:
        raise Violation('has_metadata:false', '%s: has_metadata false for %r' % (where, src))
    if end is not None and e != end:
        raise Violation('has_metadata:end', '%s: end offset %d, expected %d for %r' % (where, e, end, src))
    if tail is not None and src.encode('utf-8', 'surrogateescape')[e:] != tail:
        raise Violation('update:body-changed', '%s: text after the block changed: %r (expected tail %r)' % (where, src, tail))
    if fenced and not re.search(rb'(^|\n)---\r?\n?$', src.encode('utf-8', 'surrogateescape')[:e]):
        raise Violation('update:yaml-fence-lost', '%s: the block no longer ends with its closing fence: %r' % (where, src))
    ks = api.keys()
    exp = ''.join(nk + '\n' for (k, nk, v) in ents)
    exp_dedup = ''.join(nk + '\n' for nk in dict.fromkeys(nk for (k, nk, v) in ents))
    if ks != exp and ks != exp_dedup:
        raise Violation('keys', '%s: keys %r expected %r for %r' % (where, ks, exp, src))
    firsts = {}
    for (k, nk, vlines) in ents:
        firsts.setdefault(nk, vlines)
    for (k, nk, vlines) in ents:
        expv = norm_val(firsts[nk])          # a repeated key: lookups answer with the first occurrence
        for how in (0, 1, 2, 3):
            got = api.value(respell(k, how))
            if got != expv:
                raise Violation('value', '%s: value for key %r (spelling %d) = %r, expected %r; source %r' % (where, k, how, got, expv, src))


def check(case, ctx):
    b = build(case)
    if b is None:
        ctx.cls('unusable_case')
        return
    src, ents, end, body = b
    if '\x00' in src:
        return
    fam = case['family']
    ctx.cls('family_' + fam)
    ctx.cls('term_' + case['term'])
    ctx.cls('yaml_%d' % case['yaml'])
    api = Api(ctx.w, fam, src)
    try:
        if case['yaml'] and case.get('dashes', 3) < 3:
            # not a fence by the syntax (three or more dashes): whatever the reading, the queries and the conversion have to share it
            has, e = api.has()
            ks = api.keys() or ''
            page = api.html()
            first = [nk for (k, nk, v) in ents if nk not in SPECIAL or nk == 'title'][:1]
            in_page = bool(first) and (('<meta name="%s"' % htmlmod.escape(first[0], quote=True)) in page if first[0] != 'title' else '<title>' in page)
            ctx.cls('short_fence_agreement_checked')
            if first and (has != in_page or has != bool(ks.strip())):
                raise Violation('short-fence:queries-and-conversion-disagree', 'has_metadata=%s keys=%r, but the complete HTML %s the first key %r; source %r' % (has, ks, 'carries' if in_page else 'does not carry', first[0], src))
            return
        check_block(api, ents, end, None, 'initial', src, bool(case['yaml']))
        # (5) complete HTML carries the values
        page = api.html()
        dups = set(nk for (k, nk, v) in ents if [x[1] for x in ents].count(nk) > 1)
        if dups:
            ctx.cls('duplicate_key')
        for (k, nk, vlines) in ents:
            expv = norm_val(vlines)
            if nk in dups:
                continue
            if nk == 'title':
                m = re.search(r'<title>(.*?)</title>', page, re.S)
                got = htmlmod.unescape(m.group(1)) if m else None
            elif nk in SPECIAL:
                continue
            else:
                m = re.search(r'<meta name="%s" content="(.*?)"/>\n' % re.escape(htmlmod.escape(nk, quote=True)), page, re.S)
                got = htmlmod.unescape(m.group(1)) if m else None
            if got != expv:
                raise Violation('html-header-value', 'key %r: header carries %r, expected %r; source %r' % (nk, got, expv, src))
        ctx.cls('html_header_checked')
        # updates
        nops = 0
        tail = src.encode('utf-8', 'surrogateescape')[end:]
        for (kind, idx, how, val, newkey) in case['ops']:
            if val is not None:
                val = sanitize_value(val.replace('\n', ' '), True, ' ')
                if val is None:
                    continue
                if val.strip(' \t ').startswith('/'):
                    continue         # written behind a `key:` that has no blank after the colon this gives `key://...`, which scans as a URL (documented precedence)
            if kind == 'existing':
                i = idx % len(ents)
                i = [x[1] for x in ents].index(ents[i][1])       # a repeated key: the first occurrence is the one that is updated
                k, nk, _ = ents[i]
                if i == 0 and (val is None or val.strip() == ''):
                    continue
                spelled = respell(k, how)
                ents = ents[:i] + [(k, nk, [val or ''])] + ents[i + 1:]
            else:
                nk = norm_key(newkey)
                if not nk or nk in [e_[1] for e_ in ents] or re.match(r'^\d+\.(\s|$)', newkey):
                    continue
                spelled = newkey
                ents = ents + [(newkey, nk, [val or ''])]
            newsrc = api.update(spelled, val)
            nops += 1
            ctx.cls('update_' + kind + ('_null' if val is None else ''))
            check_block(api, ents, None, tail, 'after update %d (%s %r := %r)' % (nops, kind, spelled, val), newsrc, bool(case['yaml']))
        nt = nops > 0 or (len(ents) >= 2 and any(len(v) > 1 or re.search(r'[&:]|[^\x00-\x7f]', ' '.join(v)) for (_, _, v) in ents))
        if nt:
            ctx.nontrivial(src + repr(case['ops']) + fam)
            ctx.sample({'source': src, 'ops': [list(o) for o in case['ops']], 'family': fam})
    finally:
        api.close()


def run(tier):
    return hyp.run(__import__('props.c11', fromlist=['x']), tier, quick_s=25, thorough_s=600)


def replay(path):
    return hyp.replay(__import__('props.c11', fromlist=['x']), path)
