"""C14 — outline export is lossless and re-import reproduces the document (E3: offset equation + round trip)."""
import re
import xml.etree.ElementTree as ET

from hypothesis import strategies as st

from lib import hyp
from lib.hyp import Violation
from lib.worker import EXT
from pbt import gdoc

PROP = 'C14'
RULE = ('Hypothesis-generated documents built from a heading tree: 0..10 headings (ATX with/without closing #, Setext 1/2, levels 1..6), optional '
        'preamble, empty sections, section bodies from the G-doc grammar (paragraphs, code, quotes, lists, tables, rules) over a hostile vocabulary '
        '(every XML-reserved character, tabs, entities, multi-byte text, Markdown delimiters), leading/trailing blank lines, LF or CRLF, 0..4 '
        'single-line metadata keys, optional missing final newline. Oracle 1 (all documents): the OPML parses; outline items in document order are '
        '[preamble] + one per heading + metadata group; each title equals the generated title and each _note equals the exact source bytes between '
        'the end of the heading and the next heading (byte offsets computed by the generator). Oracle 2 (properly nested headings): '
        'html(doc) == html(import(export(doc))) for the complete document, and import∘export applied twice is a fixed point of html. '
        'Also: an engine whose metadata was queried and edited through the engine API must export the edited document; the last (ATX) heading line may end the source unterminated; titles include CriticMarkup divider look-alikes. Non-trivial: >=2 headings with a nested one and a body containing an XML-reserved character; distinct by source.')
ASSUMPTIONS = ['bodies are block-closed (fences closed, no raw HTML blocks) and contain no heading-like line; titles are not the reserved names >>Preamble<< / >>Metadata<<',
               'the first line of a metadata-free document is never `key: value`-shaped',
               'round trip only for documents whose first heading is level 1 and where no level is skipped (as in the statement)']

HOSTILE = ['alpha', 'beta & gamma', '<tag>', '"q"', "it's", 'a*b*', '`c<d`', 'x\ty', 'é中', '[l](u)', '1 < 2 > 0', '&amp;', '&#10;', '**s**',
           '~sub~', '^sup^', '\\(m\\)', '$x$', 'http://a.b/?x=1&y=2', ']]>', '<!-- c -->'.replace('<!--', '< !--'), "'single'", 'tab\there', '\u00a0nbsp', 'emoji 😀']
TITLES = ['Alpha', 'Beta', 'x & y', '<T>', '"Q"', "o'k", 'é中', 'a-b', 'C3', 'Tab\tbed', '1 < 2', 'A &amp; B', 'x ~>', 'y {~~a~>']
CFG = gdoc.Cfg(words=st.sampled_from(HOSTILE), inlines=['t', 'em', 'code'], blocks=['para', 'hr', 'fence', 'icode', 'quote', 'list', 'table'],
               code=st.sampled_from(['x', 'a<b', 'x & y', '"q"']), codelines=st.sampled_from(['code <line> & "x"', 'tab\tin code', '*lit*']), max_blocks=3)

head = st.fixed_dictionaries({
    'title': st.lists(st.sampled_from(TITLES), min_size=1, max_size=3).map(' '.join),
    'style': st.sampled_from(['atx', 'atxc', 'setext']), 'level': st.integers(1, 6), 'delta': st.integers(-2, 1),
    'two_lines': st.sampled_from([False, False, True]),
    'blanks': st.sampled_from(['', '', '', ' ', '  ', '\t']),       # blanks after the heading text / closing hashes
    'body': st.one_of(st.just(None), gdoc.blocks(CFG)), 'lead': st.sampled_from(['\n', '\n\n', '\n']), 'trail': st.sampled_from(['\n', '\n\n', '\n\n\n']),
})


def strategy(tier):
    return st.fixed_dictionaries({
        'meta': st.lists(st.one_of(st.tuples(st.sampled_from(['Title', 'Author', 'Date', 'My Key', 'Keywords']), st.sampled_from(['A Title', 'Jane & John <j@x>', '"2020"', 'x\ty', 'é中 & co'])),
                                   st.tuples(st.just('Base Header Level'), st.sampled_from(['2', '3']))),
                         max_size=4, unique_by=lambda t: t[0]),
        'engine_leg': st.booleans(), 'ctl': st.sampled_from([0, 0, 0, 1, 2, 3]),
        'preamble': st.one_of(st.just(None), gdoc.blocks(CFG)),
        'heads': st.lists(head, min_size=0, max_size=10),
        'nested': st.booleans(), 'crlf': st.booleans(), 'cr': st.sampled_from([False, False, False, True]), 'final_nl': st.booleans(), 'bare_end': st.booleans(),
    })


HEADLINE = re.compile(r'^ {0,3}#|^\s*(=+|-+)\s*$')
KEYLINE = re.compile(r'^[A-Za-z0-9][A-Za-z0-9_ \t.\-]*:')


def body_text(blocks):
    if not blocks:
        return ''
    s = gdoc.ser_blocks(gdoc.fix_blocks(blocks))
    # no heading-like lines inside a body: a line of dashes directly under text would be a Setext underline
    lines = s.split('\n')
    out = []
    for i, l in enumerate(lines):
        if HEADLINE.match(l):
            if l.strip().startswith(('-', '=')) and (i == 0 or lines[i - 1].strip() == ''):
                out.append('* * *')
                continue
            out.append('x ' + l)
            continue
        out.append(l)
    return '\n'.join(out)


def build(case):
    nl = '\r' if case.get('cr') else '\r\n' if case['crlf'] else '\n'
    src = ''
    meta = [(k, v) for k, v in case['meta']]
    if meta:
        src += ''.join('%s: %s\n' % (k, v) for k, v in meta)
    meta_end = len(src)
    items = []      # (title or None for preamble, note_start, note_end) -- filled below
    pre = body_text(case['preamble']) if case['preamble'] else ''
    if meta:
        src += '\n'
    if pre:
        if not meta and KEYLINE.match(pre.split('\n')[0]):
            pre = 'Opening words.\n\n' + pre
        src += pre + '\n\n'
    elif not meta and not case['heads']:
        src += 'Only text.\n'
    level = 0
    heads = []
    for h in case['heads']:
        if case['nested']:
            level = 1 if level == 0 else max(1, min(6, level + h['delta']))
        else:
            level = h['level']
        style = h['style']
        if style == 'setext' and level > 2:
            style = 'atx'
        title = h['title']
        if not src.endswith('\n\n') and src:
            src += '\n' if src.endswith('\n') else '\n\n'
        if style == 'atx':
            line = '#' * level + ' ' + title + h.get('blanks', '') + '\n'
        elif style == 'atxc':
            line = '#' * level + ' ' + title + ' ' + '#' * level + h.get('blanks', '') + '\n'
        else:
            if not meta and not heads and not pre and KEYLINE.match(title):
                title = 'T ' + title
            if h.get('two_lines') and ' ' in title and not re.search(r'[<>&~{]', title):
                title = title.replace(' ', '\n', 1)          # a Setext title may span several lines
            line = title + '\n' + ('=' if level == 1 else '-') * max(3, len(title)) + '\n'
        hstart = len(src)
        src += line
        b = body_text(h['body']) if h['body'] else ''
        note = (h['lead'] + b + h['trail']) if b else h['lead'][1:]
        heads.append(dict(title=title, level=level, start=hstart, note_start=len(src)))
        src += note
    if not case['final_nl']:
        src = src.rstrip('\n')
        if heads and len(src) < heads[-1]['note_start']:
            if case.get('bare_end') and src.count('\n') and not src.split('\n')[-1].startswith(('=', '-')):
                heads[-1]['note_start'] = len(src)        # the document ends with the (ATX) heading line itself, unterminated
            else:
                src = src + '\n' * (heads[-1]['note_start'] - len(src))   # keep the heading line itself terminated
    # convert to bytes with the chosen line ending and recompute offsets
    def conv(s):
        return s.replace('\n', nl).encode('utf-8')
    bsrc = conv(src)
    out_heads = []
    for i, h in enumerate(heads):
        ns = len(conv(src[:h['note_start']]))
        ne = len(conv(src[:heads[i + 1]['start']])) if i + 1 < len(heads) else len(bsrc)
        out_heads.append((h['title'], h['level'], bsrc[ns:ne]))
    first = len(conv(src[:heads[0]['start']])) if heads else len(bsrc)
    pre_note = bsrc[len(conv(src[:meta_end])):first]
    return bsrc, meta, pre_note, out_heads


def norm_title(t):
    t = t.replace('\r\n', '\n').replace('\r', '\n')          # (line endings inside a multi-line title are compared as such, whatever their spelling)
    return re.sub(r'[ \t]+$', '', re.sub(r'^[ \t]+', '', t))


def control_roundtrip(w, ctx, src, heads, ext):
    """XML cannot carry control characters other than TAB/LF/CR at all, so such an outline is not parsed as XML; what remains is the round trip
    through the program's own reader: the re-imported document renders like the original."""
    r = w.convert(src, 'opml', ext)
    opml = r.out
    cext = ext | EXT['COMPLETE']
    h0 = w.convert(src, 'html', cext).out
    t1 = w.call('opml2text', 's', opml)
    h1 = w.convert(t1[1], 'html', cext).out if t1[0] == b'ok' else None
    levels = [l for _, l, _ in heads]
    proper = bool(levels) and levels[0] == 1 and all(b <= a + 1 for a, b in zip(levels, levels[1:]))
    ctx.cls('control_characters:roundtrip_only')
    if proper and h1 != h0 and not (not src.endswith(b'\n') and w.convert(src + b'\n', 'html', cext).out == h1):
        raise Violation('roundtrip:html-differs', 'html(doc) != html(import(export(doc))) for a document with control characters\nsource=%r\nimported text=%r' % (src[:600], (t1[1] or b'')[:600]))


def check(case, ctx):
    src, meta, pre_note, heads = build(case)
    if b'\x00' in src:
        return
    w = ctx.w
    ext = EXT['SMART'] | EXT['NOTES'] | EXT['CRITIC']
    r = w.convert(src, 'opml', ext)
    if r.status != 'ok':
        raise Violation('convert:' + r.status, repr(src))
    opml = r.out
    fail = lambda sig, msg: Violation(sig, '%s\nsource=%r\nopml=%r' % (msg, src, opml[:1500]))
    try:
        root = ET.fromstring(opml)
    except ET.ParseError as e:
        raise fail('opml:not-well-formed', str(e))
    body = root.find('body')
    items = []

    def walk(el, depth):
        for o in el.findall('outline'):
            items.append((o.get('text'), o.get('_note'), depth, o))
            if o.get('text') != '>>Metadata<<':
                walk(o, depth + 1)
    walk(body, 1)
    exp = []
    if len(pre_note) > 0:
        # anything (even a blank line) between the metadata and the first heading is kept in a preamble item
        exp.append(('>>Preamble<<', pre_note))
    for t, lvl, note in heads:
        exp.append((t, note))
    if meta:
        exp.append(('>>Metadata<<', None))
    got = [(t, n) for t, n, d, o in items]
    if [g[0] if g[0] in ('>>Preamble<<', '>>Metadata<<') else norm_title(g[0] or '') for g in got] != [e[0] if e[0].startswith('>>') else norm_title(e[0]) for e in exp]:
        raise fail('outline:items', 'outline items %r\nexpected %r' % ([g[0] for g in got], [e[0] for e in exp]))
    for (gt, gn), (et_, en) in zip(got, exp):
        if en is None:
            continue
        if (gn or '').encode('utf-8') != en:
            raise fail('outline:note', 'note of %r:\n got %r\n want %r' % (gt, (gn or '').encode('utf-8'), en))
    if meta:
        mitems = [(o.get('text'), o.get('_note')) for o in items[-1][3].findall('outline')]
        want = [(''.join(c.lower() for c in k if c.isalnum()), v.replace('\t', ' ') if False else v) for k, v in meta]
        if [m[0] for m in mitems] != [x[0] for x in want] or any(re.sub(r'[ \t]+', ' ', a[1] or '').strip() != re.sub(r'[ \t]+', ' ', b[1]).strip() for a, b in zip(mitems, want)):
            raise fail('outline:metadata', 'metadata group %r, expected %r' % (mitems, want))
    ctx.cls('lossless_checked')
    ctx.cls('headings_%d' % min(len(heads), 10))
    # ---- Oracle 2: round trip for properly nested documents ---------------------------------------------------------------------------
    levels = [l for _, l, _ in heads]
    proper = bool(levels) and levels[0] == 1 and all(b <= a + 1 for a, b in zip(levels, levels[1:]))
    if proper:
        # the outline nests by heading level (a base header level shifts every heading alike and changes nothing here)
        hitems = [it for it in items if it[0] not in ('>>Preamble<<', '>>Metadata<<')][:len(heads)]
        for (t, lvl, _), it in zip(heads, hitems):
            if it[2] != lvl:
                raise fail('outline:nesting', 'heading %r of level %d sits at outline depth %d' % (t, lvl, it[2]))
        cext = ext | EXT['COMPLETE']
        h0 = w.convert(src, 'html', cext).out
        t1 = w.call('opml2text', 's', opml)
        if t1[0] != b'ok':
            raise fail('import:null', 'opml import returned NULL')
        text1 = t1[1]
        h1 = w.convert(text1, 'html', cext).out
        if h1 != h0 and not src.endswith(b'\n') and w.convert(src + b'\n', 'html', cext).out == h1:
            # known finding: the importer terminates the last line, and a code block at the very end renders differently with/without it
            raise fail('roundtrip:html-differs:source-without-final-newline', 'html(doc) != html(import(export(doc)))\nimported text=%r\nhtml0=%r\nhtml1=%r' % (text1[:800], h0[-400:], h1[-400:]))
        if h1 != h0:
            raise fail('roundtrip:html-differs', 'html(doc) != html(import(export(doc)))\nimported text=%r\nhtml0=%r\nhtml1=%r' % (text1[:800], h0[-700:], h1[-700:]))
        opml2 = w.convert(text1, 'opml', ext).out
        text2 = w.call('opml2text', 's', opml2)[1]
        h2 = w.convert(text2, 'html', cext).out
        if h2 != h0:
            raise fail('roundtrip:not-a-fixed-point', 'second export/import changed the rendering\ntext1=%r\ntext2=%r' % (text1[:600], text2[:600]))
        ctx.cls('roundtrip_checked')
        if case.get('engine_leg'):
            # one engine that holds the OPML source and is converted several times: every conversion shows the imported document
            from lib.worker import FMT
            w.call('pool', 'init')
            eid = w.call('enew', cext | EXT['PARSE_OPML'], opml)[1]
            try:
                t0 = w.call('eopml2text', eid)
                if t0[0] != b'ok' or t0[1] != text1 or t0[2] != opml:
                    raise fail('import:reused-engine', 'mmd_engine_convert_opml_to_text() on the engine: text %r (one-shot import gave %r), engine source kept: %s' % (t0[1][:200], text1[:200], t0[2] == opml))
                e1 = w.call('econv', eid, 'e', FMT['html'], '')[1]
                em = w.call('econv', eid, 'ed', FMT['mmd'], '')[1]
                e2 = w.call('econv', eid, 'e', FMT['html'], '')[1]
                em2 = w.call('econv', eid, 'ed', FMT['mmd'], '')[1]
            finally:
                w.call('efree', eid)
                w.call('pool', 'drain')
            if e1.rstrip(b'\n') != h1.rstrip(b'\n') or e2 != e1 or em2 != em or not em.strip():
                raise fail('import:reused-engine', 'an engine holding the OPML source gave different results on later conversions\nfirst html=%r\nsecond html=%r\nmmd=%r\nmmd again=%r'
                           % (e1[-300:], e2[-300:], em[:200], em2[:200]))
            ctx.cls('reused_engine_checked')
    if meta and case.get('engine_leg') is not None:
        # an engine whose metadata was queried and edited through the engine API exports the EDITED document: <head>, the metadata outline
        # and the text all come from the text the engine holds now
        from lib.worker import FMT
        w.call('pool', 'init')
        eid = w.call('enew', ext, src)[1]
        try:
            w.call('ehas', eid)
            w.call('evalue', eid, meta[0][0])
            newsrc = w.call('eupdate', eid, meta[0][0], 'Final edited value', '0')[1]
            got = w.call('econv', eid, 'e', FMT['opml'], '')[1]
        finally:
            w.call('efree', eid)
            w.call('pool', 'drain')
        want = w.convert(newsrc, 'opml', ext, api='e').out
        if got.rstrip(b'\n') != want.rstrip(b'\n'):
            raise fail('export:engine-after-metadata-edit', 'OPML exported by an engine after mmd_engine_update_metavalue_for_key(%r) differs from the export of the edited text\nengine=%r\nfresh =%r'
                       % (meta[0][0], got[:700], want[:700]))
        ctx.cls('engine_export_after_metadata_edit')
    if case.get('ctl') and b'alpha' in src.lower():
        control_roundtrip(w, ctx, re.sub(rb'(?i)alpha', lambda m: m.group(0)[:2] + (b'\x0c', b'\x1b', b'\x0b')[case['ctl'] % 3] + m.group(0)[2:], src), heads, ext)
    if len(heads) >= 2 and any(b > a for a, b in zip(levels, levels[1:])) and re.search(rb'[&<>"\']', b''.join(n for _, _, n in heads)):
        ctx.nontrivial(src)
        ctx.sample(src.decode('utf-8', 'replace'))


def run(tier):
    return hyp.run(__import__('props.c14', fromlist=['x']), tier, quick_s=25, thorough_s=600, chunk=200)


def replay(path):
    return hyp.replay(__import__('props.c14', fromlist=['x']), path)
