"""C07 — bounded stack and linear cost on nested and repeated input (E4 ladders; `plain` CLI and `cov` cost meter)."""
import concurrent.futures as cf
import glob
import os
import re
import shutil
import signal
import subprocess
import time

from lib import common, vbuild
from lib import worker as wk

PROP = 'C07'
RULE = ('(i) nesting ladder: for each of ~30 constructs (brackets, parens, angles, braces, {{ }}, image/footnote/citation/glossary brackets, '
        '* _ emphasis, strong+emphasis, quotes, the five CriticMarkup pairs and a mixture, math, super/subscript, backtick runs, block quotes, '
        'list nesting and marker runs, definition colons, nested links, <div>, table pipes) the closed, unclosed and unopened forms with n on '
        'the ladder 10^2..10^6 openers are converted by the uninstrumented CLI built without optimisation like the CMake build of the project (largest frames; default 8 MiB stack) through the writers in MMD and compatibility '
        'mode; oracle: exit status 0 (a signal is a violation; a rung exceeding the per-case time budget ends that ladder as inconclusive). '
        '(i-a) the same ladders with one more construct in the document that switches on an optional walk of the whole tree (abbreviation, glossary, citation, link/image reference definitions, {{TOC}}, metadata, table with caption, definition list, math) through every writer incl. the packaged formats (epub, odt, bundlezip, itmz). (i-b) stack plateau: peak stack of one conversion (in-process meter) at nesting depth 10000 against depth 2500, plain and behind a quote / list prefix: beyond the built-in limits the peak must not grow by more than half (+64 KiB) -- bounded recursion has reached its plateau, unbounded recursion has not. (ii) repetition ladder: d^k for corpus files and line-kind representatives, k=1,2,4,..; cost = executed SanitizerCoverage edges (pure '
        'function of the input); oracle cost(d^2k) <= 2.15*cost(d^k) on the two largest rungs with >=64 KiB input, and peak stack < 6 MiB. '
        'Seeds include anchored cross-references under --random / --unique. (iii) the published pathological patterns (a_, _a, a], [a, *a_, [ a_, runs of [ and ]) one per line and on one line, n=2^10..2^17, same '
        'doubling oracle. Non-trivial: a completed rung with >=10^4 bytes of openers, or a seed/pattern with >=3 measured rungs; distinct by '
        '(construct, form, n, writer, mode) resp. (seed, writer, mode).')
ASSUMPTIONS = ['linearity is asserted only for repeated blocks and the named published patterns (as in the statement); deep balanced nesting is only required not to crash',
               'a rung that does not finish inside the time budget is inconclusive, never a violation',
               'documents containing {{TOC}} are excluded from the repetition ladder (k copies have k tables of k*h entries: quadratic output by definition)',
               'vendored miniz (deflate) is left uninstrumented in the cost meter']

FMTS_ALL = ['html', 'latex', 'beamer', 'memoir', 'fodt', 'opml', 'itmz']
FMT_NUM = {'html': 0, 'latex': 2, 'beamer': 3, 'memoir': 4, 'fodt': 5, 'opml': 9, 'itmz': 10}
EXT_MMD, EXT_COMPAT = 0x218, 0x1a1


def constructs():
    c = {}
    def pair(name, o, f, cl):
        c[name] = lambda n, form, o=o, f=f, cl=cl: (o * n + f + cl * n) if form == 'closed' else (o * n + f) if form == 'unclosed' else (f + cl * n)
    pair('bracket', '[', 'a', ']')
    pair('bracket_sp', '[ ', 'a', ' ]')
    pair('paren', '(', 'a', ')')
    pair('angle', '<', 'a', '>')
    pair('brace2', '{{', 'a', '}}')
    pair('brace', '{', 'a', '}')
    pair('image', '![', 'a', ']')
    pair('footnote', '[^', 'a', ']')
    pair('footnote_text', '[^a ', 'b', ']')          # inline notes with text of their own, each inside the previous one
    pair('citation_text', '[#a ', 'b', ']')
    pair('glossary_text', '[?a ', 'b', ']')
    pair('citation', '[#', 'a', ']')
    pair('glossary', '[?', 'a', ']')
    pair('emph_star', '*a ', 'b', ' a*')
    pair('emph_ul', '_a ', 'b', ' a_')
    pair('strong_emph', '*a **a ', 'b ', 'a** a*')
    pair('quote_dbl', '"a ', 'b', ' a"')
    pair('critic_add', '{++', 'a', '++}')
    pair('critic_del', '{--', 'a', '--}')
    pair('critic_sub', '{~~', 'a~>b', '~~}')
    pair('critic_hi', '{==', 'a', '==}')
    pair('critic_com', '{>>', 'a', '<<}')
    pair('critic_mixed', '{++{--', 'a', '--}++}')
    pair('math_paren', '\\\\(', 'a', '\\\\)')
    pair('math_dollar', '$', 'a', '$')
    pair('link_nest', '[', 'a', '](b)')
    # deep trees INSIDE verbatim regions go through the writers' raw / math / tt exporters, which recurse on their own
    c['code_brackets'] = lambda n, form: '`' + '[' * n + 'a' + (']' * n if form == 'closed' else '') + '`'
    c['math_brackets'] = lambda n, form: '\\\\(' + '[' * n + 'a' + (']' * n if form == 'closed' else '') + '\\\\)'
    c['math_nested'] = lambda n, form: '\\\\(' * n + 'a' + ('\\\\)' * n if form == 'closed' else '')
    c['code_block_brackets'] = lambda n, form: '    ' + '[' * n + 'a' + (']' * n if form == 'closed' else '') + '\n'
    pair('div', '<div>', 'a', '</div>')
    pair('mixed', '[(<{{*', 'a', '*}}>)]')
    c['sup'] = lambda n, form: '^a' * n if form != 'unopened' else 'a^' * n
    c['sub'] = lambda n, form: '~a' * n if form != 'unopened' else 'a~' * n
    c['backtick'] = lambda n, form: ''.join('`' * i + ' ' for i in range(1, min(n, 1500))) + ('x' if form == 'closed' else '')
    c['blockquote'] = lambda n, form: '> ' * n + 'a'
    c['bq_lines'] = lambda n, form: ''.join('>' * i + ' a\n' for i in range(1, min(n, 1500)))
    c['list_indent'] = lambda n, form: ''.join(' ' * (4 * i) + '* a\n' for i in range(min(n, 2000)))
    c['list_marker'] = lambda n, form: '* ' * n + 'a'
    c['enum_marker'] = lambda n, form: '1. ' * n + 'a'
    c['deflist'] = lambda n, form: 'term\n' + ': ' * n + 'a'
    # flat (not nested) repetition inside one document: n CriticMarkup changes / n occurrences of a defined abbreviation
    c['flat_critic'] = lambda n, form: 'a {++b++} {--c--} {~~d~>e~~} {==f==}{>>g<<}\n' * (n // 4 + 1)
    c['flat_abbrev'] = lambda n, form: '[>AB]: expansion\n\n[?term]: gloss\n\n' + 'AB x term y\n' * (n // 2 + 1)
    # a chain of reference notes, each one called from inside the previous one (notes are numbered with a short: at most 30000)
    c['note_chain'] = lambda n, form: 'x[^n0]\n\n' + ''.join('[^n%d]: t[^n%d]\n' % (i, i + 1) for i in range(min(n, 30000))) + '[^n%d]: end\n' % min(n, 30000)
    c['cite_chain'] = lambda n, form: 'x[#c0]\n\n' + ''.join('[#c%d]: t[#c%d]\n' % (i, i + 1) for i in range(min(n, 30000))) + '[#c%d]: end\n' % min(n, 30000)
    c['note_chain_in_brackets'] = lambda n, form: 'x[^n0]\n\n' + ''.join('[^n%d]: %st[^n%d]%s\n' % (i, '[' * 200, i + 1, ']' * 200) for i in range(min(n // 100, 3000))) + '[^n%d]: end\n' % min(n // 100, 3000)
    c['table_pipes'] = lambda n, form: '|'.join('a' for _ in range(n)) + '\n' + '|'.join('-' for _ in range(n)) + '\n' + '|'.join('b' for _ in range(n)) + '\n'
    return c


VERBATIM_NESTING = {'code_brackets', 'math_brackets', 'math_nested', 'code_block_brackets', 'note_chain', 'cite_chain', 'note_chain_in_brackets'}
SINGLE_FORM = {'note_chain', 'cite_chain', 'note_chain_in_brackets', 'flat_critic', 'flat_abbrev', 'sup', 'sub', 'backtick', 'blockquote', 'bq_lines', 'list_indent', 'list_marker', 'enum_marker', 'deflist', 'table_pipes'}

PATTERNS = {'unopened_emph': 'a_', 'unclosed_emph': '_a', 'unopened_link': 'a]', 'unclosed_link': '[a', 'mismatched': '*a_', 'link_emph': '[ a_',
            'open_brackets': '[', 'close_brackets': ']'}


def cost_bin():
    return vbuild.harness('c07_cost', 'cov', ['c07_cost.c'])


def prebuild():
    cost_bin()
    vbuild.cli('plain')
    vbuild.cli('plain-O0')


# Optional passes of the library that walk the whole parse tree on their own are switched on by one more construct somewhere in the document
# (a definition, a table of contents, metadata, ...): the deep nesting must not matter to them either.
FEATURES = {'abbr': '\n\n[>HTML]: x\n\nHTML here\n', 'gloss': '\n\n[?term]: gloss\n\nterm here [?term]\n', 'toc': '\n\n# Head\n\n{{TOC}}\n\n[Head][]\n',
            'refimg': '\n\n[r]: i.png "t" width=3\n\n![i][r] [l][r]\n', 'meta': None, 'table': '\n\n| a | b |\n|---|---|\n| c | d |\n[cap][lab]\n',
            'cite': '\n\n[#k]: Ref\n\nx[#k] [p. 3][#k]\n', 'def': '\n\nterm\n: definition\n', 'math': '\n\n$$x$$ \\\\(y\\\\)\n'}
FEATURE_CONSTRUCTS = ['bracket', 'paren', 'emph_star', 'quote_dbl', 'footnote_text', 'critic_add', 'image', 'link_nest', 'blockquote', 'list_marker', 'brace2', 'angle', 'math_paren']
FEATURE_FMTS = ['html', 'latex', 'fodt', 'opml', 'itmz', 'epub', 'odt', 'bundlezip', 'beamer', 'memoir', 'mmd']


def with_feature(doc, feature):
    if not feature or feature == 'plain':
        return doc
    if FEATURES[feature] is None:
        return 'Title: x\ncss: s.css\n\n' + doc
    return doc + FEATURES[feature]


def plateau_task(args):
    """Peak stack of one conversion at two nesting depths beyond every built-in limit: bounded recursion has reached its plateau at the first."""
    name, prefix, fmt, lo, hi, budget, work = args
    gen = constructs()[name]
    out = dict(name=name, prefix=prefix, fmt=fmt, stacks=[], runs=0, note=None, path=None)
    for n in (lo, hi):
        p = os.path.join(work, 'plat-%s-%s-%s-%d.text' % (name, {'': 'p', '> ': 'q', '* ': 'l'}[prefix], fmt, n))
        open(p, 'w').write(prefix + gen(n, 'closed') + '\n')
        try:
            r = subprocess.run([cost_bin(), p, str(FMT_NUM[fmt]), str(wk.EXT_DEFAULT), '1'], stdout=subprocess.PIPE, stderr=subprocess.PIPE, timeout=budget)
        except subprocess.TimeoutExpired:
            out['note'] = 'n=%d exceeded %.0fs' % (n, budget)
            return out
        out['runs'] += 1
        m = re.search(r'stack=(\d+)', r.stdout.decode())
        if r.returncode < 0:
            out['stacks'].append(('signal%d' % -r.returncode, n))
            out['path'] = p
            return out
        if not m:
            out['note'] = 'no measurement (rc=%d)' % r.returncode
            return out
        out['stacks'].append((int(m.group(1)), n))
        out['path'] = p
    return out


def _run_cli(cli, fmt, compat, data, timeout):
    cmd = [cli, '-t', fmt] + {0: [], 1: ['-c'], 2: ['-a'], 3: ['-r']}[int(compat)]      # 2/3: CriticMarkup accept / reject pre-pass
    t0 = time.time()
    try:
        p = subprocess.run(cmd, input=data, stdout=subprocess.DEVNULL, stderr=subprocess.PIPE, timeout=timeout)
        return p.returncode, time.time() - t0, p.stderr[-300:]
    except subprocess.TimeoutExpired:
        return None, timeout, b''


def ladder_task(args):
    """One (construct, form, fmt, mode) ladder climbed until a rung fails or times out."""
    name, form, fmt, compat, rungs, budget, work = args[:7]
    feature = args[7] if len(args) > 7 else ''
    gen = constructs()[name]
    cli = vbuild.cli('plain-O0')
    out = dict(name=name + ('+' + feature if feature else ''), form=form, fmt=fmt, compat=compat, done=[], fail=None, inconclusive=None, runs=0)
    for n in rungs:
        doc = with_feature(gen(n, form), feature).encode()
        rc, dt, err = _run_cli(cli, fmt, compat, doc, budget)
        out['runs'] += 1
        if rc is None:
            out['inconclusive'] = n
            break
        if rc != 0:
            p = os.path.join(work, 'fail-%s-%s-%s-%d-%d.txt' % (out['name'], form, fmt, compat, n))
            open(p, 'wb').write(('fmt=%s compat=%d\n' % (fmt, compat)).encode() + doc)
            sig = 'stack:signal%d' % (-rc) if rc < 0 else 'stack:rc%d' % rc
            out['fail'] = (n, sig, p, err.decode(errors='replace'))
            break
        out['done'].append((n, len(doc), round(dt, 3)))
    return out


def cost_task(args):
    """Doubling ladder for one seed file: returns rungs [(k, in_bytes, edges, stack)]."""
    path, fmt, ext, max_bytes, budget = args
    size = max(1, os.path.getsize(path) + 2)
    ks = []
    k = 1
    while k * size <= max_bytes and k <= 1 << 20:
        ks.append(k)
        k *= 2
    if len(ks) < 3:
        return dict(path=path, fmt=fmt, ext=ext, rungs=[], note='too few rungs')
    try:
        p = subprocess.run([cost_bin(), path, str(FMT_NUM[fmt]), str(ext)] + [str(k) for k in ks], stdout=subprocess.PIPE, stderr=subprocess.PIPE, timeout=budget)
        txt, rc = p.stdout.decode(), p.returncode
    except subprocess.TimeoutExpired as e:
        txt, rc = (e.stdout or b'').decode(), None
    rungs = [(int(m.group(1)), int(m.group(2)), int(m.group(3)), int(m.group(4))) for m in re.finditer(r'k=(\d+) in=(\d+) edges=(\d+) stack=(\d+)', txt)]
    return dict(path=path, fmt=fmt, ext=ext, rungs=rungs, rc=rc)


def pattern_task(args):
    """Published pattern in ONE paragraph: n units for n on a doubling ladder; one cost measurement (k=1) per n."""
    name, unit, sep, fmt, ext, ns, budget, work = args[:8]
    prefix = args[8] if len(args) > 8 else ''
    rungs = []
    t_end = time.time() + budget
    for n in ns:
        p = os.path.join(work, 'pat-%s-%s-%s-%d-%d.text' % (name, 'l' if sep == '\n' else 's', fmt, ext, n))
        open(p, 'w').write(prefix + sep.join([unit] * n) + '\n')
        left = t_end - time.time()
        if left <= 0:
            break
        try:
            q = subprocess.run([cost_bin(), p, str(FMT_NUM[fmt]), str(ext), '1'], stdout=subprocess.PIPE, stderr=subprocess.PIPE, timeout=left)
        except subprocess.TimeoutExpired:
            os.unlink(p)
            break
        os.unlink(p)
        m = re.search(r'k=(\d+) in=(\d+) edges=(\d+) stack=(\d+)', q.stdout.decode())
        if q.returncode != 0 or not m:
            return dict(path='pattern-%s-%s' % (name, 'lines' if sep == '\n' else 'oneline'), fmt=fmt, ext=ext, rungs=rungs, rc=q.returncode, crashed=n, unit=unit, sep=sep, prefix=prefix)
        rungs.append((n, int(m.group(2)), int(m.group(3)), int(m.group(4))))
    return dict(path='pattern-%s-%s' % (name, 'lines' if sep == '\n' else 'oneline'), fmt=fmt, ext=ext, rungs=rungs, rc=0, unit=unit, sep=sep, prefix=prefix)


def replay(path):
    """Replay file: first line `fmt=<name> compat=<0|1>`, rest = the document.  Passes if the CLI exits 0."""
    data = open(path, 'rb').read()
    head, _, doc = data.partition(b'\n')
    m = re.match(rb'fmt=(\w+) compat=(\d)', head)
    if m:
        rc, dt, err = _run_cli(vbuild.cli('plain-O0'), m.group(1).decode(), int(m.group(2)), doc, 600)
        if rc == 0:
            print('replay passes:', path)
            return 0
        common.violation(PROP, path, 'stack:signal%d' % (-rc) if rc and rc < 0 else 'stack:rc%s' % rc)
        return 1
    m = re.match(rb'cost fmt=(\w+) ext=(\d+)', head)
    if m:
        tmp = path + '.doc'
        open(tmp, 'wb').write(doc)
        r = cost_task((tmp, m.group(1).decode(), int(m.group(2)), 1 << 21, 600))
        os.unlink(tmp)
        v = judge_cost(r)
        if v:
            common.violation(PROP, path, v[0])
            print(v[1])
            return 1
        print('replay passes:', path)
        return 0
    m = re.match(rb'plateau fmt=(\w+) name=(\w+) prefix=([pql])', head)
    if m:
        work = common.scratch_dir('c07-replay')
        r = plateau_task((m.group(2).decode(), {'p': '', 'q': '> ', 'l': '* '}[m.group(3).decode()], m.group(1).decode(), 2500, 10000, 600, work))
        shutil.rmtree(work, ignore_errors=True)
        st_ = r['stacks']
        bad = (st_ and isinstance(st_[-1][0], str)) or (len(st_) == 2 and st_[1][0] > 1.5 * st_[0][0] + 64 * 1024)
        if bad:
            common.violation(PROP, path, 'stack:grows-with-depth:%s' % r['name'])
            print(st_)
            return 1
        print('replay passes:', path, st_)
        return 0
    print('unrecognised replay file')
    return 2


def judge_cost(r, min_bytes=64 * 1024):
    big = [x for x in r['rungs'] if x[1] >= min_bytes]
    if r.get('rc') is not None and r['rc'] < 0:
        return 'stack:signal%d-on-repeat' % -r['rc'], 'cost meter killed by signal %d after rungs %s' % (-r['rc'], [(x[0], x[1]) for x in r['rungs'][-2:]])
    if len(r['rungs']) >= 3 and r['rungs'][-1][3] > 4 * r['rungs'][0][3] + 64 * 1024:
        return 'stack:grows-with-repetition', 'peak stack %d bytes at k=%d against %d bytes at k=%d' % (r['rungs'][-1][3], r['rungs'][-1][0], r['rungs'][0][3], r['rungs'][0][0])
    for x in r['rungs']:
        if x[3] > 6 * 1024 * 1024:
            return 'stack:peak-above-6MiB', 'k=%d stack=%d bytes' % (x[0], x[3])
    if len(big) >= 2 and len(r['rungs']) >= 3:
        ratios = [big[i + 1][2] / big[i][2] for i in range(len(big) - 1)]
        last = ratios[-2:] if len(ratios) >= 2 else ratios
        if max(last) > 2.15:
            return 'cost:superlinear', 'doubling ratios %s for rungs %s' % (['%.3f' % x for x in ratios], [(x[0], x[1], x[2]) for x in big])
    return None


def run(tier):
    ev = common.Evidence(PROP, tier)
    ev.rule = RULE
    ev.assumptions = ASSUMPTIONS
    known = common.Known()
    work = common.scratch_dir('c07')
    prebuild()
    quick = tier == 'quick'
    scale = common.budget_scale()
    failures = []   # (sig, replay path, detail)
    # ---- (i) nesting ladders -----------------------------------------------------------------------------------------------------------
    rungs_full = [100, 1000, 10000, 100000] + ([] if quick else [300000, 1000000])
    rungs_small = [100, 1000, 10000] + ([] if quick else [100000, 1000000])
    budget = (4 if quick else 90) * scale
    tasks = []
    for name in constructs():
        forms = ['closed'] if name in SINGLE_FORM else ['closed', 'unclosed', 'unopened']
        for form in forms:
            for fmt in FMTS_ALL:
                for compat in (0, 1):
                    if quick and fmt not in ('html', 'latex', 'fodt', 'opml') and (compat or form != 'closed'):
                        continue
                    rungs = rungs_full if (fmt in ('html', 'latex') or (name in VERBATIM_NESTING and fmt == 'fodt')) else rungs_small
                    tasks.append((name, form, fmt, compat, rungs, budget, work))
            if name.startswith('critic'):
                # the accept / reject pre-pass walks the CriticMarkup tree on its own
                for mode in (2, 3):
                    tasks.append((name, form, 'html', mode, rungs_full, budget, work))
    for name in ('flat_critic', 'flat_abbrev'):
        for mode in ((0, 2, 3) if name == 'flat_critic' else (0,)):
            tasks.append((name, 'closed', 'html', mode, rungs_full[1:] + ([] if quick else [3000000]), budget, work))
    # deep nesting together with one construct that switches on an optional tree walk, through every writer incl. the packaged formats
    fc = ['bracket', 'emph_star', 'quote_dbl', 'image'] if quick else FEATURE_CONSTRUCTS
    ff = ['html', 'fodt', 'bundlezip', 'latex', 'epub'] if quick else FEATURE_FMTS
    for name in fc:
        for feature in ['plain'] + sorted(FEATURES):
            for fmt in ff:
                if feature == 'plain' and fmt in FMTS_ALL:
                    continue        # covered above
                tasks.append((name, 'closed', fmt, 0, [100000] if quick else [10000, 100000, 300000], budget * 3, work, feature))
    with cf.ProcessPoolExecutor(common.NCPU) as ex:
        for r in ex.map(ladder_task, tasks, chunksize=2):
            ev.evaluations += r['runs']
            if '+' in r['name']:
                ev.add_class('ladders_with_feature_construct')
            for n, nbytes, dt in r['done']:
                if nbytes >= 10000:
                    ev.nontrivial.add('%s/%s/%s/%d/%d' % (r['name'], r['form'], r['fmt'], r['compat'], n))
            top = r['done'][-1][0] if r['done'] else 0
            ev.add_class('ladder_top_rung_%d' % top)
            if r['inconclusive']:
                ev.add_class('ladders_cut_by_time_budget')
                if len(ev.inconclusive) < 40:
                    ev.inconclusive.append('%s/%s/%s%s: rung n=%d exceeded %.0fs' % (r['name'], r['form'], r['fmt'], '/compat' if r['compat'] else '', r['inconclusive'], budget))
            if r['fail']:
                n, sig, p, err = r['fail']
                failures.append(('%s:%s' % (sig, r['name']), p, '%s %s %s compat=%d n=%d %s' % (r['name'], r['form'], r['fmt'], r['compat'], n, err)))
    ev.sample({'ladder': 'bracket closed', 'n': 1000, 'document': '[' * 12 + '...a...' + ']' * 12})
    # ---- (i-b) stack plateau: beyond the built-in limits the peak stack no longer depends on the nesting depth --------------------------
    pc = ['footnote_text', 'citation_text', 'glossary_text', 'bracket', 'emph_star', 'critic_add', 'image', 'link_nest', 'math_paren'] if quick else \
        [n_ for n_ in constructs() if n_ not in SINGLE_FORM and n_ not in ('div',)]
    ptasks_ = [(name, prefix, fmt, 2500, 10000, (30 if quick else 240) * scale, work) for name in pc for prefix in ('', '> ', '* ')
               for fmt in (('fodt', 'html', 'latex') if quick else ('fodt', 'html', 'latex', 'opml', 'beamer', 'memoir', 'itmz'))]
    with cf.ProcessPoolExecutor(common.NCPU) as ex:
        for r in ex.map(plateau_task, ptasks_, chunksize=1):
            ev.evaluations += r['runs']
            if r['note']:
                ev.add_class('plateau_inconclusive')
                if len(ev.inconclusive) < 60:
                    ev.inconclusive.append('plateau %s/%r/%s: %s' % (r['name'], r['prefix'], r['fmt'], r['note']))
                continue
            st_ = r['stacks']
            if r['path']:
                rp_ = r['path'] + '.replay'
                open(rp_, 'w').write('plateau fmt=%s name=%s prefix=%s\n(re-generated on replay: %s nested 2500 and 10000 deep behind the prefix %r)\n' % (r['fmt'], r['name'], {'': 'p', '> ': 'q', '* ': 'l'}[r['prefix']], r['name'], r['prefix']))
                r['path'] = rp_
            if st_ and isinstance(st_[-1][0], str):
                failures.append(('stack:%s:%s' % (st_[-1][0], r['name']), r['path'], 'cost meter killed at nesting depth %d (%s, prefix %r, %s)' % (st_[-1][1], r['name'], r['prefix'], r['fmt'])))
                continue
            if len(st_) == 2:
                ev.add_class('plateau_pairs_measured')
                ev.nontrivial.add('plateau/%s/%s/%s' % (r['name'], r['prefix'], r['fmt']))
                if st_[1][0] > 1.5 * st_[0][0] + 64 * 1024:
                    failures.append(('stack:grows-with-depth:%s' % r['name'], r['path'], 'peak stack %d bytes at depth %d against %d bytes at depth %d (%s, prefix %r, %s): recursion is not bounded by a depth limit'
                                     % (st_[1][0], st_[1][1], st_[0][0], st_[0][1], r['name'], r['prefix'], r['fmt'])))
    # ---- (ii) repetition ladders + (iii) published patterns: cost in executed edges -----------------------------------------------------
    seeds_dir = os.path.join(work, 'seeds')
    os.makedirs(seeds_dir)
    seeds = []
    for p in sorted(glob.glob(os.path.join(vbuild.REPO, 'tests', 'MMD6Tests', '*.text'))):
        s = open(p, 'rb').read()
        if b'{{TOC' in s:
            continue
        seeds.append(p)
    lines = ["text\n", "    code\n", "* item\n", "1. item\n", "> quote\n", "```\ncode\n```\n", "a | b\n--|--\nc | d\n", "term\n: def\n", "<div>\nx\n</div>\n",
             "# Head\n\n> : y\n\n", "term\n: def\n\n> : z\n\nHead\n====\n\n", "[>AB]: expansion\n\nAB x AB y\n", "[?term]: gloss\n\nsome term here\n", "a {++b++} {--c--} {~~d~>e~~} f\n",
             "# H\n\n[x][r]\n\n[r]: #foo\n\n", "# Head\n\nsee [Head][] and note[^n]\n\n[^n]: note\n\n",
             "***\n", "head\n===\n", "# head\n", "[a]: http://x\n", "[^a]: note\n\ntext[^a]\n", "*a* **b** `c` [l](u) ![i](p)\n", "x <a@b.cc> \"q\" -- ...\n"]
    always = []
    for i, l in enumerate(lines):
        p = os.path.join(seeds_dir, 'line%02d.text' % i)
        open(p, 'w').write(l)
        seeds.append(p)
        if '[>AB]' in l or '{++' in l or '[?term]' in l or '> : ' in l or '[r]: #foo' in l or '[Head][]' in l:
            always.append(p)
    pats = []
    if quick:
        import random
        rnd = random.Random(common.seed())
        seeds = always + rnd.sample([x for x in seeds if x not in always], min(20, len(seeds)))
        fmts, max_bytes = ['html', 'latex', 'fodt'], 300 * 1024
    else:
        fmts, max_bytes = FMTS_ALL, 2 << 20
    ctasks = [(p, f, e, max_bytes, (60 if quick else 900) * scale) for p in seeds + pats for f in fmts for e in (EXT_MMD, EXT_COMPAT)]
    # CriticMarkup accept / reject run a separate pass over the source before parsing
    ctasks += [(p, 'html', EXT_MMD | e, max_bytes, (60 if quick else 900) * scale) for p in always + [x for x in seeds if 'Critic' in os.path.basename(x)] for e in (0x400, 0x800)]
    # declared-random anchors (--random / --unique) look headers and notes up while printing every link
    ctasks += [(p, 'html', EXT_MMD | e, max_bytes, (60 if quick else 900) * scale) for p in always for e in (wk.EXT['RANDOM_LABELS'], wk.EXT['RANDOM_FOOT'], wk.EXT['RANDOM_LABELS'] | wk.EXT['RANDOM_FOOT'])]
    with cf.ProcessPoolExecutor(common.NCPU) as ex:
        for r in ex.map(cost_task, ctasks, chunksize=1):
            ev.evaluations += len(r['rungs'])
            if len(r['rungs']) >= 3:
                ev.nontrivial.add('cost/%s/%s/%d' % (os.path.basename(r['path']), r['fmt'], r['ext']))
            ev.add_class('cost_ladders')
            if r.get('rc') is None and r['rungs']:
                ev.add_class('cost_ladders_cut_by_time_budget')
            v = judge_cost(r)
            big = [x for x in r['rungs'] if x[1] >= 64 * 1024]
            if len(big) >= 2:
                ratio = big[-1][2] / big[-2][2]
                ev.add_class('last_doubling_ratio_%.1f' % ratio)
                if len(ev.samples) < 6 and 'pattern' in r['path']:
                    ev.sample({'seed': os.path.basename(r['path']), 'fmt': r['fmt'], 'ext': hex(r['ext']), 'rungs(k,bytes,edges)': [(x[0], x[1], x[2]) for x in r['rungs'][-3:]], 'last_ratio': round(ratio, 3)})
            if v:
                rp = os.path.join(work, 'cost-%s-%s-%d.txt' % (os.path.basename(r['path']), r['fmt'], r['ext']))
                open(rp, 'wb').write(('cost fmt=%s ext=%d\n' % (r['fmt'], r['ext'])).encode() + open(r['path'], 'rb').read())
                failures.append(('%s:%s' % (v[0], 'pattern' if 'pattern-' in r['path'] else 'repeat'), rp, '%s %s ext=%#x: %s' % (os.path.basename(r['path']), r['fmt'], r['ext'], v[1])))
    # (iii) published patterns inside one paragraph
    ns = [1 << e for e in range(10, 16 if quick else 18)]
    ptasks = [(name, unit, sep, f, e, ns, (40 if quick else 600) * scale, work) for name, unit in PATTERNS.items() for sep in ('\n', ' ')
              for f in fmts for e in (EXT_MMD, EXT_COMPAT)]
    # the same patterns behind a pair that encloses a stray opener of another kind (the pair matcher discards the stray opener when the
    # pair closes; its bookkeeping for the large-stack short-circuit must forget it as well)
    for pname, prefix in (('star_ul', '*x _y* '), ('ul_star', '_x *y_ '), ('bracket_paren', '[ ( ] '), ('quote_bracket', '"x [y" ')):
        ptasks += [('%s_after_%s' % (name, pname), unit, sep, 'html', EXT_MMD, ns, (40 if quick else 600) * scale, work, prefix)
                   for name, unit in PATTERNS.items() for sep in ('\n', ' ')]
    with cf.ProcessPoolExecutor(common.NCPU) as ex:
        for r in ex.map(pattern_task, ptasks, chunksize=1):
            ev.evaluations += len(r['rungs'])
            ev.add_class('pattern_ladders')
            if len(r['rungs']) >= 3:
                ev.nontrivial.add('pattern/%s/%s/%d' % (r['path'], r['fmt'], r['ext']))
            if len(r['rungs']) < len(ns) and not r.get('crashed'):
                ev.add_class('pattern_ladders_cut_by_time_budget')
            v = ('stack:crash-on-pattern', 'n=%d rc=%s' % (r['crashed'], r['rc'])) if r.get('crashed') else judge_cost(r, 32 * 1024)
            big = [x for x in r['rungs'] if x[1] >= 32 * 1024]
            if len(big) >= 2:
                ratio = big[-1][2] / big[-2][2]
                ev.add_class('pattern_last_doubling_ratio_%.1f' % ratio)
                if len(ev.samples) < 7:
                    ev.sample({'pattern': r['path'], 'fmt': r['fmt'], 'ext': hex(r['ext']), 'rungs(n,bytes,edges)': [(x[0], x[1], x[2]) for x in r['rungs'][-3:]], 'last_ratio': round(ratio, 3)})
            if v:
                rp = os.path.join(work, 'cost-%s-%s-%d.txt' % (r['path'], r['fmt'], r['ext']))
                n = r.get('crashed') or r['rungs'][-1][0]
                open(rp, 'wb').write(('cost fmt=%s ext=%d\n' % (r['fmt'], r['ext'])).encode() + (r.get('prefix', '') + r['sep'].join([r['unit']] * n) + '\n').encode())
                failures.append(('%s:pattern:%s' % (v[0], r['path']), rp, '%s %s ext=%#x: %s' % (r['path'], r['fmt'], r['ext'], v[1])))
    # committed regressions
    rd = os.path.join(common.SEEDS, PROP)
    if os.path.isdir(rd):
        for f in sorted(os.listdir(rd)):
            data = open(os.path.join(rd, f), 'rb').read()
            head, _, doc = data.partition(b'\n')
            m = re.match(rb'fmt=(\w+) compat=(\d)', head)
            if m:
                rc, dt, err = _run_cli(vbuild.cli('plain-O0'), m.group(1).decode(), int(m.group(2)), doc, 300)
                ev.add_class('regression_replays')
                ev.evaluations += 1
                if rc != 0:
                    failures.append(('stack:signal%s:regression' % (-rc if rc else 'timeout'), os.path.join(rd, f), f))
    rcode = 0
    seen = set()
    for sig, path, detail in failures:
        k = known.match(PROP, sig)
        if k:
            if sig not in seen:
                common.known_line(PROP, sig, k['what'])
                ev.known_hit.append(sig)
        else:
            ev.violations += 1
            rcode = 1
            if sig not in seen:
                rp = path if path.startswith(common.SEEDS) else common.save_replay(PROP, os.path.basename(path), open(path, 'rb').read())
                common.violation(PROP, rp, sig)
                print(detail[:600])
        seen.add(sig)
    ev.write()
    shutil.rmtree(work, ignore_errors=True)
    print('%s %s: %d runs, %d non-trivial, %d violations' % (PROP, tier, ev.evaluations, len(ev.nontrivial), ev.violations))
    return rcode
