"""C18 — the shared token pool honours its init/drain/free protocol (rapidcheck state machine, asan variant)."""
from lib import rcrun

PROP = 'C18'
RULE = ('rapidcheck state machine over {init, drain, free, convert(doc,fmt,ext), parse-and-hold(doc), inspect} with preconditions enforced by '
        'construction (convert/parse/drain need an outstanding init, free needs none); documents sweep the token count through the residues of '
        'the 1024-token slab (1..3000 emphasis runs) and include multi-slab documents (>5000 tokens). Oracle after every command: conversion '
        'output equals the pristine-pool reference; every held tree is addressable (ASan) and structurally unchanged until the OUTERMOST drain; '
        'after it every held root and a token from each slab is poisoned and the allocator reports the slabs released; after free+init results '
        'are unchanged. Non-trivial: history with a nested init/drain or a re-init after free AND a multi-slab document; distinct by command list.')
ASSUMPTIONS = ['only properly bracketed histories are generated (an unbalanced drain/free is a caller error, not an input)',
               'ASan poisoning is the observation for "memory released"; __sanitizer_get_current_allocated_bytes for the amount',
               'the global pool is restored to pristine (drained, freed) by the harness around every generated case']
_rc = rcrun.RC(PROP, 'c18_pool', 'c18_pool.cpp', RULE, ASSUMPTIONS, quick=1500, thorough=40000, max_size=40)
prebuild, replay, run = _rc.prebuild, _rc.replay, _rc.run
