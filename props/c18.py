"""C18 — the shared token pool honours its init/drain/free protocol (rapidcheck state machine, asan variant; CLI bracket enumeration)."""
import itertools
import json
import os
import shutil
import subprocess
from concurrent.futures import ThreadPoolExecutor

from lib import common, rcrun, vbuild

PROP = 'C18'
RULE = ('rapidcheck state machine over {init, drain, free, convert(doc,fmt,ext), parse-and-hold(doc), inspect} with preconditions enforced by '
        'construction (convert/parse/drain need an outstanding init, free needs none); documents sweep the token count through the residues of '
        'the 1024-token slab (1..3000 emphasis runs) and include multi-slab documents (>5000 tokens). Oracle after every command: conversion '
        'output equals the pristine-pool reference; every held tree is addressable (ASan) and structurally unchanged until the OUTERMOST drain; '
        'after it every held root and a token from each slab is poisoned and the allocator reports the slabs released; after free+init results '
        'are unchanged. Second leg (enumerated completely): the command-line tool, which is the one in-tree caller that nests init/drain pairs, is run over the product of its modes '
        '({stdin, 1..3 files} x {-b} x {-m, -e KEY, convert} x format x {-c, -a, -f, -s}) and must leave the pool balanced: no pool diagnostic on stderr, exit status 0, no sanitizer report. Non-trivial: history with a nested init/drain or a re-init after free AND a multi-slab document; distinct by command list.')
ASSUMPTIONS = ['only properly bracketed histories are generated (an unbalanced drain/free is a caller error, not an input)',
               'ASan poisoning is the observation for "memory released"; __sanitizer_get_current_allocated_bytes for the amount',
               'the global pool is restored to pristine (drained, freed) by the harness around every generated case']
_rc = rcrun.RC(PROP, 'c18_pool', 'c18_pool.cpp', RULE, ASSUMPTIONS, quick=1500, thorough=40000, max_size=40)


# ---- CLI leg: every mode of the command-line tool closes the brackets it opens -------------------------------------------------------
FILES = {'meta.txt': 'Title: T\nAuthor: A\n\n# Head #\n\nsome *text* here[^n]\n\n[^n]: a note\n',
         'plain.txt': 'plain *paragraph*\n\n* item\n* item\n',
         'big.txt': 'Title: Big\n\n' + ''.join('*w%d* ' % i + ('\n\n' if i % 40 == 39 else '') for i in range(3000)) + '\n',     # several slabs
         'opml.opml': '<?xml version="1.0" encoding="UTF-8"?>\n<opml version="1.0">\n<head><title>T</title></head>\n<body>\n<outline text="Head" _note="body *text*"></outline>\n'
                      '<outline text="Metadata"><outline text="title" _note="T"/></outline>\n</body>\n</opml>\n'}
FILESETS = [[], ['meta.txt'], ['plain.txt', 'meta.txt'], ['meta.txt', 'big.txt', 'plain.txt'], ['big.txt', 'big.txt']]


def cli_cases():
    for files, batch, query, fmt, extra in itertools.product(FILESETS, [[], ['-b']], [[], ['-m'], ['-e', 'title'], ['-e', 'nosuchkey']],
                                                             ['html', 'latex', 'opml', 'fodt', 'mmd', 'epub'],
                                                             [[], ['-c'], ['-a'], ['-f'], ['-s'], ['--nosmart', '--nolabels']]):
        if batch and not files:
            continue
        if fmt == 'epub' and not batch:
            continue                    # binary output on stdout: nothing different for the pool
        yield dict(files=files, args=batch + query + ['-t', fmt] + extra)
    for batch in ([], ['-b']):
        for query in ([], ['-m'], ['-e', 'title']):
            yield dict(files=['opml.opml'], args=batch + query + ['--opml', '-t', 'html'])


def cli_one(case, work):
    cli = vbuild.cli('asan')
    d = os.path.join(work, 'c%s' % common.sha(json.dumps(case, sort_keys=True)))
    os.makedirs(d, exist_ok=True)
    for f in set(case['files']):
        open(os.path.join(d, f), 'w').write(FILES[f])
    env = common.san_env()         # (leak detection stays off here: the archive writers never call mz_zip_writer_end(), which is not pool memory)
    p = subprocess.run([cli] + case['args'] + case['files'], cwd=d, env=env, input=(FILES['meta.txt'].encode() if not case['files'] else b''),
                       stdout=subprocess.PIPE, stderr=subprocess.PIPE, timeout=300)
    shutil.rmtree(d, ignore_errors=True)
    err = p.stderr.decode(errors='replace')
    sig = common.san_signature(err)
    if sig:
        return 'cli:' + common.sig_str(sig), err[-2000:]
    if 'token pool' in err:
        return 'cli:pool-still-in-use-at-exit', err[-600:]
    if p.returncode != 0:
        return 'cli:exit-status-%d' % p.returncode, err[-600:]
    return None


def cli_leg(ev, failures, tier):
    work = common.scratch_dir('c18cli')
    cases = list(cli_cases())
    with ThreadPoolExecutor(common.NCPU) as ex:
        res = list(ex.map(lambda c: cli_one(c, work), cases))
    shutil.rmtree(work, ignore_errors=True)
    seen = set()
    for c, r in zip(cases, res):
        ev.evaluations += 1
        ev.add_class('cli_invocations')
        if '-b' in c['args'] and len(c['files']) > 1:
            ev.add_class('cli_batch_with_several_files')
            ev.nontrivial.add(common.sha(json.dumps(c, sort_keys=True)))
        if r and r[0] not in seen:
            seen.add(r[0])
            rp = common.save_replay(PROP, 'c18-cli-%s.json' % common.sha(json.dumps(c, sort_keys=True)), json.dumps(dict(signature=r[0], case=c, detail=r[1]), indent=1))
            failures.append((rp, r[0]))
    ev.sample(json.dumps(cases[len(cases) // 2]))
    ev.add_class('cli_mode_product_enumerated_completely')


def cli_replay(path):
    doc = json.load(open(path))
    work = common.scratch_dir('c18cli-replay')
    r = cli_one(doc['case'], work)
    shutil.rmtree(work, ignore_errors=True)
    if r:
        print(r[1])
    return r[0] if r else None


_rc.extra, _rc.extra_replay = cli_leg, cli_replay


def prebuild():
    _rc.prebuild()
    vbuild.cli('asan')


replay, run = _rc.replay, _rc.run
