"""C17 — independent conversions may run concurrently when the pool is disabled (thread harness, ThreadSanitizer)."""
import glob
import os
import random
import re
import shutil
import struct
import subprocess

from lib import common, fuzz, pkg, vbuild
from lib.worker import EXT, FMT
from props import c05

PROP = 'C17'
RULE = ('T in {2,4,8} threads, each with its own engines, each converting its own generated stream of 20..120 (document, format, extension set, '
        'language) items drawn from the statefulness pool of C05 (e-mail autolinks, notes, cross-references, tables, images, metadata, CriticMarkup, '
        'multi-slab document) and the corpus, all 12 formats incl. packages, random yields/sleeps between items derived from VERIF_SEED; library '
        'built with DISABLE_OBJECT_POOL and -fsanitize=thread. One stream in five is asset-heavy (every item packs the document with local images into epub / odt / textbundle with a directory), one in four draws random anchors on every item. Oracle: (1) ThreadSanitizer (happens-before) reports nothing; (2) every thread\'s '
        'output equals the output of the same item in a single-threaded run (packages under the UUID/date mask; random-anchor items are not compared but must be self-consistent: every generated #fn:N / #<number> link has its id). '
        'Non-trivial: a run in which conversion intervals of >=2 threads overlapped and >=1 item used a stateful feature; distinct by (seed, T, stream).')
ASSUMPTIONS = ['a happens-before detector only sees accesses that were executed in the sampled schedules; this is exploration, not a proof of race freedom',
               'overlap is measured with a monotonic clock for the evidence counter only, never for a verdict',
               'TSan reports inside uninstrumented libc are attributed to the first /repo/src frame that called into it']

FMTS = ['html', 'latex', 'beamer', 'memoir', 'fodt', 'opml', 'mmd', 'epub', 'odt', 'bundlezip', 'itmz']
EXTS = c05.EXTS


def binary():
    return vbuild.harness('c17_threads', 'tsan-nopool', ['c17_threads.cpp'], libs=['-lpthread'])


def prebuild():
    binary()


def read_outputs(d):
    out = {}
    for p in glob.glob(os.path.join(d, 't*.bin')):
        data = open(p, 'rb').read()
        i = 0
        while i + 8 <= len(data):
            ln, n = struct.unpack('<II', data[i:i + 8])
            out[ln] = data[i + 8:i + 8 + n]
            i += 8 + n
    return out


_SUM = re.compile(r'SUMMARY: ThreadSanitizer: ([^\n]*)')


def tsan_signatures(logdir):
    sigs = {}
    for p in glob.glob(os.path.join(logdir, 'tsan.*')):
        txt = open(p, 'rb').read().decode('utf-8', 'replace')
        for rep in txt.split('==================')[1:]:
            m = re.search(r'WARNING: ThreadSanitizer: ([a-z \-]+)', rep)
            if not m:
                continue
            kind = m.group(1).strip().replace(' ', '-')
            loc = re.search(r"Location is global '([^']+)'", rep)
            frames = re.findall(r'#\d+ (\S+) (\S+?):\d+', rep)
            func = next((f for f, path in frames if '/src/' in path and 'harness' not in path), frames[0][0] if frames else '?')
            sig = 'tsan:%s:%s%s' % (kind, func, (':' + loc.group(1)) if loc else '')
            sigs.setdefault(sig, rep[:1800])
    return sigs


def same(fmt, a, b):
    if pkg.is_package_fmt(fmt):
        try:
            return pkg.masked_view(a) == pkg.masked_view(b)
        except Exception:
            return a == b
    return a == b


def run_once(work, idx, rnd, docs_dir, ndocs, stateful_idx, T):
    n_items = rnd.randint(20, 120)
    items = []
    assets = rnd.random() < 0.2      # every item stores assets through the package writers at the same time as the other threads
    heavy = (not assets) and rnd.random() < 0.3      # every item draws random anchors at the same time as the other threads
    for _ in range(n_items):
        d = rnd.choice(stateful_idx) if rnd.random() < 0.5 else rnd.randrange(ndocs)
        if assets:
            # every item packs a document with local images (and the e-mail / note documents now and then) into an archive
            items.append((rnd.randrange(T), 6 if rnd.random() < 0.8 else d, rnd.choice(['epub', 'odt', 'bundlezip', 'htmlassets', 'epub']), rnd.choice(EXTS[:4]), rnd.randrange(7)))
            continue
        if heavy:
            items.append((rnd.randrange(T), ndocs - 1, 'html', EXTS[0] | EXT['RANDOM_FOOT'] | (EXT['RANDOM_LABELS'] if rnd.random() < 0.5 else 0), 0))
            continue
        items.append((rnd.randrange(T), d, rnd.choice(FMTS), rnd.choice(EXTS), rnd.randrange(7)))
    sf = os.path.join(work, 'stream%d.txt' % idx)
    with open(sf, 'w') as fh:
        for t, d, f, e, l in items:
            fh.write('%d %d %d %d %d\n' % (t, d, FMT[f], e, l))
    b = binary()
    env = dict(os.environ, FZ_FIXTURE=fuzz.fixture())
    serial, par = os.path.join(work, 'ser%d' % idx), os.path.join(work, 'par%d' % idx)
    os.makedirs(serial)
    os.makedirs(par)
    seed = rnd.randrange(1 << 30)
    env_s = dict(env, TSAN_OPTIONS='halt_on_error=0 exitcode=0 report_bugs=0')
    p1 = subprocess.run([b, docs_dir, sf, serial, '0', str(seed)], env=env_s, stdout=subprocess.PIPE, stderr=subprocess.PIPE, timeout=600)
    env_p = dict(env, TSAN_OPTIONS='halt_on_error=0 exitcode=0 second_deadlock_stack=1 history_size=4 log_path=%s' % os.path.join(par, 'tsan'))
    p2 = subprocess.run([b, docs_dir, sf, par, str(T), str(seed)], env=env_p, stdout=subprocess.PIPE, stderr=subprocess.PIPE, timeout=600)
    res = dict(items=items, crash=None, mismatches=[], tsan={}, overlapped=0, stream=sf)
    if p1.returncode != 0 or p2.returncode != 0:
        res['crash'] = 'serial rc=%d threaded rc=%d %s' % (p1.returncode, p2.returncode, (p2.stderr or p1.stderr)[-600:].decode(errors='replace'))
        return res
    so, po = read_outputs(serial), read_outputs(par)
    m = re.search(r'overlapped=(\d+)', open(os.path.join(par, 'stats.txt')).read())
    res['overlapped'] = int(m.group(1)) if m else 0
    for ln, (t, d, f, e, l) in enumerate(items):
        if e & (EXT['RANDOM_FOOT'] | EXT['RANDOM_LABELS']):
            # declared-random anchors are not compared byte for byte, but a document must stay consistent with ITSELF: every generated
            # #fn:N / #<number> link of the threaded run has an element with that id (anchors drawn from state shared between threads break this)
            if f == 'html' and ln in po:
                ids = set(re.findall(rb'id="([^"]+)"', po[ln]))
                for h in re.findall(rb'href="#(fn:\d+|cn:\d+|gn:\d+|\d+)"', po[ln]):
                    if h not in ids:
                        res['mismatches'].append((ln, t, d, f, e, l))
                        res['dangling'] = h.decode()
                        break
            continue
        if ln not in so or ln not in po or not same(f, so[ln], po[ln]):
            res['mismatches'].append((ln, t, d, f, e, l))
    res['tsan'] = tsan_signatures(par)
    return res


def replay(path):
    """Replay file: JSON {seed, T, runs}: re-runs that stream configuration."""
    import json
    spec = json.load(open(path))
    return _execute('quick', spec.get('runs', 6), spec['seed'], [spec['T']], replay_path=path)


def _execute(tier, nruns, seed, Ts, replay_path=None):
    ev = common.Evidence(PROP, tier)
    ev.rule = RULE
    ev.assumptions = ASSUMPTIONS
    known = common.Known()
    work = common.scratch_dir('c17')
    docs = list(c05.STATEFUL) + [c05.MULTISLAB[:20000]] + [d for d in c05.corpus() if len(d) < 3000][:40]
    # a document whose every anchor is generated: 12 footnotes, headings with title cross-references (for the random-anchor streams)
    docs.append(''.join('# Head %d\n\ntext[^n%d] more[^n%d] see [Head %d][]\n\n' % (i, 2 * i, 2 * i + 1, (i + 1) % 6) for i in range(6))
                + ''.join('[^n%d]: note %d\n\n' % (i, i) for i in range(12)))
    stateful_idx = list(range(len(c05.STATEFUL) + 1))
    dd = os.path.join(work, 'docs')
    os.makedirs(dd)
    for i, d in enumerate(docs):
        open(os.path.join(dd, '%d.txt' % i), 'wb').write(d.encode('utf-8', 'surrogateescape'))
    rnd = random.Random(seed)
    failures = {}
    import concurrent.futures as cf
    jobs = []
    # TSan runs are themselves multi-threaded: run a few at a time
    with cf.ThreadPoolExecutor(max(2, common.NCPU // 4)) as ex:
        for i in range(nruns):
            T = Ts[i % len(Ts)]
            jobs.append((i, T, ex.submit(run_once, work, i, random.Random(rnd.randrange(1 << 60)), dd, len(docs), stateful_idx, T)))
        for i, T, fut in jobs:
            r = fut.result()
            ev.evaluations += len(r['items'])
            ev.add_class('runs')
            ev.add_class('threads_%d' % T)
            if r['overlapped'] > 0:
                ev.nontrivial.add('%d/%d/%d' % (seed, i, T))
                ev.add_class('runs_with_overlapping_conversions')
                if len(ev.samples) < 3:
                    ev.sample({'T': T, 'items': len(r['items']), 'overlapped_conversions': r['overlapped'],
                               'first_items': [(t, d, f, hex(e), l) for t, d, f, e, l in r['items'][:6]]})
            if r['crash']:
                failures.setdefault('crash:threaded-run', r['crash'])
            for sig, rep in r['tsan'].items():
                failures.setdefault(sig, rep)
            for mm in r['mismatches'][:1]:
                if r.get('dangling') and mm[4] & (EXT['RANDOM_FOOT'] | EXT['RANDOM_LABELS']):
                    failures.setdefault('random-anchors:dangling-under-threads', 'item %r: href="#%s" has no element with that id in the threaded run' % (mm, r['dangling']))
                else:
                    failures.setdefault('output-differs-from-serial:%s' % mm[3], 'item %r' % (mm,))
    rcode = 0
    import json
    for sig, detail in failures.items():
        k = known.match(PROP, sig)
        if k:
            common.known_line(PROP, sig, k['what'])
            ev.known_hit.append(sig)
            continue
        ev.violations += 1
        rcode = 1
        rp = replay_path or common.save_replay(PROP, 'c17-%s.json' % common.sha(sig), json.dumps({'seed': seed, 'T': Ts[0], 'runs': min(nruns, 12), 'signature': sig, 'detail': detail}, indent=1))
        common.violation(PROP, rp, sig)
        print(detail[:1200])
    ev.write()
    shutil.rmtree(work, ignore_errors=True)
    print('%s %s: %d conversions in %d runs, %d runs with overlap, %d violations' % (PROP, tier, ev.evaluations, nruns, len(ev.nontrivial), ev.violations))
    return rcode


def run(tier):
    nruns = int((80 if tier == 'quick' else 1500) * common.budget_scale())
    return _execute(tier, nruns, common.seed(), [2, 4, 8])
