"""C04 — all output formats carry the same text, escaped for the target (E3: sentinel documents, 6 formats)."""
import re
import xml.parsers.expat as expat

from hypothesis import strategies as st

from lib import hyp
from lib.hyp import Violation
from lib.worker import EXT, FMT
from pbt import gdoc

PROP = 'C04'
RULE = ('G-doc documents under the sentinel policy: every word is unique (wNNNNNN body, nNNNNNN note, aNNNNNN image alt, tNNNNNN link/image title, '
        'mNNNNNN metadata); reserved characters (& < > " and \\ { } $ % # _ ^ ~) are embedded between sentinels qNa<ch>0Nq in every slot '
        '(paragraph, heading, list item, table cell, link text, title, image alt, footnote, metadata value), spelled as TEXT by the documentation '
        '(bare where the character has no Markdown meaning there, backslash-escaped otherwise); code spans, code blocks and math carry vSNz <payload> '
        'vENz with payloads over printable ASCII; no raw HTML, no raw-source blocks, no TOC, no abbreviations, every footnote referenced once. The '
        'same source is rendered to HTML, LaTeX, Beamer, Memoir, FODT and OPML (snippet and complete). Oracles: (0) visible text is extracted first '
        '(expat for HTML/FODT/OPML; LaTeX with labels/refs/URL arguments removed); (1) the sequence of body words equals the source sequence, note '
        'words form their own subsequence, attribute-only words are never duplicated into the body; (2) the raw bytes between the two sentinels of '
        'a reserved character are one of the accepted escaped spellings for the target (never the raw character where it is reserved); (3) verbatim '
        'payloads round-trip after undoing the target\'s escaping; (4) markup nests properly (XML parse; LaTeX begin/end stack and brace balance). '
        'Also: header-level metadata (base / LaTeX header level 2..5) and headings, metadata values and Setext titles that end in a character whose last UTF-8 byte is 0xA0 / 0x85. Non-trivial: >=3 distinct slots holding a reserved character; distinct by source.')
ASSUMPTIONS = ['a `"` may appear as a typographic quote (entity or \\`\\`/\'\' in LaTeX) when smart typography is on; LaTeX does not reserve `"`',
               'OPML stores source text: there the predicate is that XML-unescaping the attribute gives back the source spelling',
               'a code span inside a table cell never contains `|`; code lines inside quotes/lists carry no leading blanks (documented delimiters)',
               'whether a LaTeX engine would typeset the result is not judged']

HTML_RES = '&<>"'
LATEX_RES = '\\{}$%&#_^~'
ALL_RES = '&<>"\\{}$%#_^~'
BARE_OK = '&<>"%#'            # no Markdown meaning in running text: written bare; the rest is written backslash-escaped
VERB = 'ab <>&"\'%$#_{}~^*[]()!+-=:;,.?/@\\'
EXCLUDED = {}


def spell(ch):
    return ch if ch in BARE_OK else '\\' + ch


cell = st.lists(st.sampled_from(['W', 'W', 'Q']), min_size=1, max_size=3).map(' '.join)
CFG = gdoc.Cfg(words=st.sampled_from(['W', 'W', 'W', 'Q']), inlines=['t', 'em', 'st', 'code', 'link', 'img', 'fnref', 'imath'], heading_inlines=['t', 'em', 'st', 'code', 'link'],
               blocks=['para', 'atx', 'setext', 'hr', 'fence', 'icode', 'quote', 'list', 'table', 'figure', 'deflist'],
               code=st.just('V'), codelines=st.just('V'), urls=st.sampled_from(['http://e.x/U', 'U.html', 'http://e.x/?a=U&b=U']),
               titles=st.sampled_from([None, None, 'T', 'T Q']), images=st.sampled_from(['img/U.png', 'U.jpg']), langs=st.sampled_from([None, 'python']),
               meta=st.lists(st.tuples(st.sampled_from(['Title', 'Author', 'Keywords', 'Copyright']), st.sampled_from(['M', 'M Q', 'M Q M'])), max_size=3,
                             unique_by=lambda t: t[0]).map(lambda m: [list(x) for x in m] or None))


CFG_COMPAT = gdoc.Cfg(words=st.sampled_from(['W', 'W', 'W', 'Q']), inlines=['t', 'em', 'st', 'code', 'link', 'img'], heading_inlines=['t', 'em', 'st', 'code', 'link'],
                      blocks=['para', 'atx', 'setext', 'hr', 'icode', 'quote', 'list'], code=st.just('V'), codelines=st.just('V'),
                      urls=st.sampled_from(['http://e.x/U', 'U.html', 'http://e.x/?a=U&b=U']), titles=st.sampled_from([None, None, 'T', 'T Q']),
                      images=st.sampled_from(['img/U.png', 'U.jpg']))


def strategy(tier):
    return st.one_of(_strategy(CFG, False), _strategy(CFG, False), _strategy(CFG_COMPAT, True))


def _strategy(cfg, compat):
    return st.fixed_dictionaries({
        'compat': st.just(compat),
        'doc': gdoc.document(cfg),
        'chars': st.lists(st.integers(0, len(ALL_RES) - 1), min_size=40, max_size=40),
        'payloads': st.lists(st.text(alphabet=VERB, min_size=1, max_size=10), min_size=12, max_size=12),
        'smart': st.booleans(), 'complete': st.booleans(),
        'order': st.lists(st.sampled_from(['html', 'latex', 'beamer', 'memoir', 'opml']), max_size=4),
        'lang': st.sampled_from([0, 0, 0, 1, 2, 3, 4, 5, 6]),
        'renotes': st.sampled_from([False, False, True]), 'nolabels': st.sampled_from([False, False, True]),
        'atail': st.sampled_from([None, None, 'à', 'Р', '…']),
        'hlevel': st.sampled_from([None, None, None, ('Base Header Level', '2'), ('Base Header Level', '3'), ('LaTeX Header Level', '2'), ('LaTeX Header Level', '3'), ('Base Header Level', '5')]),
    })


class Inst:
    """Turns the placeholders W Q V T M U of a serialised document into unique sentinels."""
    def __init__(self, case):
        self.n = 0
        self.q = 0
        self.v = 0
        self.chars = case['chars']
        self.payloads = case['payloads']
        self.slots = {}       # k -> (ch, slot)
        self.verb = {}        # k -> (payload, kind)
        self.bare_angle = None
        self.allow_known = bool(case.get('allow_known'))

    def word(self, prefix):
        self.n += 1
        return '%s%06d' % (prefix, self.n)

    def res(self, slot, allowed=ALL_RES):
        self.q += 1
        ch = ALL_RES[self.chars[self.q % len(self.chars)]]
        if ch not in allowed:
            ch = allowed[self.q % len(allowed)]
        self.slots[self.q] = (ch, slot)
        if slot in ('title', 'meta'):
            sp = ch
        elif ch in '<>':
            # a bare `<` and a bare `>` in the same block can be read as one angle-bracket pair (inline HTML / autolink syntax); only one
            # of the two kinds is ever written bare in a document, the other one is written as the backslash escape
            if self.bare_angle in (None, ch):
                self.bare_angle = ch
                sp = ch
            else:
                sp = '\\' + ch
        else:
            sp = spell(ch)
        return 'q%da%s0%dq' % (self.q, sp, self.q)

    def verbatim(self, kind):
        self.v += 1
        p = self.payloads[self.v % len(self.payloads)].strip() or 'x'
        p = p.replace('`', '')
        if kind in ('span', 'cellspan'):
            # brackets / angle brackets inside a code span that sits inside link text or next to a bare < are not unambiguous uses
            p = p.replace('[', '').replace(']', '').replace('<', '').replace('>', '')
        if kind == 'cellspan':
            p = p.replace('|', '')
        if kind in ('span', 'cellspan') and re.search(r'~~\}|\{~~|~>', p) and not self.allow_known:
            # known finding: the LaTeX \texttt exporter prints the tildes of CriticMarkup substitution markers bare -- kept out of span payloads (counted)
            EXCLUDED['critic_tilde_in_code_span'] = EXCLUDED.get('critic_tilde_in_code_span', 0) + 1
            p = re.sub(r'~~\}|\{~~|~>', '', p)
        if kind in ('math',):
            p = re.sub(r'[$\\{}%&#_^~<>]', '', p) or 'x'      # math is the author's TeX: only characters without TeX meaning, so nesting stays the writer's business
        if re.search(r'<<\}|\{>>|~>', p) and kind != 'math':
            # known finding of C08 (OpenDocument prints CriticMarkup comment markers and the substitution divider raw inside verbatim text):
            # kept out of verbatim payloads here as well (counted), it is reported once, by C08
            EXCLUDED['critic_marker_in_verbatim(C08 finding)'] = EXCLUDED.get('critic_marker_in_verbatim(C08 finding)', 0) + 1
            p = re.sub(r'<<\}|\{>>|~>', '', p)
        if kind == 'block' and '%' in p and not self.allow_known:
            # known finding: the LaTeX raw exporter writes \\% for a bare % inside verbatim code blocks -- kept out of block payloads (counted)
            EXCLUDED['percent_in_code_block'] = EXCLUDED.get('percent_in_code_block', 0) + 1
            p = p.replace('%', '')
        p = p.strip() or 'x'
        self.verb[self.v] = (p, kind)
        return 'vS%dz %s vE%dz' % (self.v, p, self.v)


def title_spell(ch):
    # titles and metadata values are not parsed for Markdown: every character is literal there
    return ch


def instantiate(doc, inst):
    """Walks the AST (JSON lists) and replaces placeholders; returns a new document."""
    def inl(xs, slot, wprefix='w', in_cell=False):
        out = []
        for x in xs:
            k = x[0]
            if k == 't':
                ws = []
                for w in x[1].split(' '):
                    ws.append(inst.word(wprefix) if w == 'W' else inst.res(slot) if w == 'Q' else w)
                out.append(['t', ' '.join(ws)])
            elif k in ('em', 'st'):
                out.append([k, x[1], inl(x[2], slot + '/em', wprefix, in_cell)])
            elif k == 'code':
                out.append(['code', inst.verbatim('cellspan' if in_cell else 'span')])
            elif k == 'link':
                title = None
                if x[3]:
                    title = ' '.join(inst.word('t') if w == 'T' else inst.res('title', '&<>%#{}$_^~') for w in x[3].split(' '))
                out.append(['link', inl(x[1], slot + '/linktext', wprefix, in_cell), x[2].replace('U', inst.word('u')), title, '"'])
            elif k == 'img':
                title = ' '.join(inst.word('t') if w == 'T' else inst.res('title', '&<>%#{}$_^~') for w in x[3].split(' ')) if x[3] else None
                out.append(['img', inst.word('a'), x[2].replace('U', inst.word('u')), title])
            elif k == 'imath':
                out.append(['imath', x[1], inst.verbatim('math')])
            else:
                out.append(x)
        return out

    def blk(bs, slot_prefix=''):
        out = []
        for b in bs:
            k = b[0]
            if k == 'para':
                out.append(['para', [inl(l, slot_prefix + 'para') for l in b[1]], b[2]])
            elif k == 'atx':
                out.append(['atx', b[1], inl(b[2], 'heading'), b[3]])
            elif k == 'setext':
                out.append(['setext', b[1], inl(b[2], 'heading')])
            elif k == 'fence':
                out.append(['fence', b[1], b[2], [inst.verbatim('block') for _ in b[3]]])
            elif k == 'icode':
                out.append(['icode', b[1], [inst.verbatim('block') for _ in b[2]]])
            elif k == 'quote':
                out.append(['quote', blk(b[1], 'quote/')])
            elif k == 'list':
                out.append(['list', b[1], b[2], b[3], [[inl(f, 'item'), blk(r, 'item/')] for f, r in b[4]]])
            elif k == 'table':
                out.append(['table', b[1], [inl(c, 'cell', 'w', True) for c in b[2]], [[inl(c, 'cell', 'w', True) for c in r] for r in b[3]], None])
            elif k == 'deflist':
                out.append(['deflist', [inst.word('w') + ' ' + inst.res('term') for _ in b[1]], [inst.word('w') + ' ' + inst.res('definition') for _ in b[2]]])
            elif k == 'figure':
                title = ' '.join(inst.word('t') if w == 'T' else inst.res('title', '&<>%#{}$_^~') for w in b[3].split(' ')) if b[3] else None
                out.append(['figure', inst.word('a'), b[2].replace('U', inst.word('u')), title])
            else:
                out.append(b)
        return out

    d = dict(doc)
    d['blocks'] = blk(doc['blocks'])
    d['notes'] = [[fid, inst.word('n') + ' ' + inst.res('footnote') + ' ' + inst.word('n')] for fid, _ in doc.get('notes', [])]
    if doc.get('meta'):
        d['meta'] = [[k, ' '.join(inst.word('m') if w == 'M' else inst.res('meta', '&<>"%#{}$_^~') for w in v.split(' '))] for k, v in doc['meta']]
    return d


def single_use_notes(doc):
    """Every footnote is referenced exactly once (re-used notes legitimately print once, unused ones never)."""
    seen = set()

    def inl(xs):
        out = []
        for x in xs:
            if x[0] == 'fnref':
                if x[1] in seen:
                    continue
                seen.add(x[1])
            if x[0] in ('em', 'st'):
                x = [x[0], x[1], inl(x[2]) or [['t', 'W']]]
            if x[0] == 'link':
                x = ['link', inl(x[1]) or [['t', 'W']]] + list(x[2:])
            out.append(x)
        return out or [['t', 'W']]

    def blk(bs):
        out = []
        for b in bs:
            k = b[0]
            if k == 'para':
                b = ['para', [inl(l) for l in b[1]], b[2]]
            elif k in ('atx', 'setext'):
                b = [k, b[1], [x for x in b[2] if x[0] != 'fnref'] or [['t', 'W']]] + list(b[3:])
            elif k == 'quote':
                b = ['quote', blk(b[1])]
            elif k == 'list':
                b = ['list', b[1], b[2], b[3], [[inl(f), blk(r)] for f, r in b[4]]]
            elif k == 'table':
                b = ['table', b[1], [[x for x in c if x[0] != 'fnref'] or [['t', 'W']] for c in b[2]], [[[x for x in c if x[0] != 'fnref'] or [['t', 'W']] for c in r] for r in b[3]], None]
            out.append(b)
        return out
    d = dict(doc)
    d['blocks'] = blk(doc['blocks'])
    return gdoc.finish(d)


# ---- visible text ------------------------------------------------------------------------------------------------------------------------
def xml_visible(data, wrap, member):
    """(character data incl. whitespace elements, [(attr name, value)])"""
    chunks, attrs = [], []
    p = expat.ParserCreate()

    def se(name, a):
        for k in ('alt', 'title', 'content', 'office:name', 'text', '_note'):
            if k in a:
                attrs.append((k, a[k]))
        if name == 'text:s':
            chunks.append(' ' * int(a.get('text:c', '1')))
        elif name == 'text:tab':
            chunks.append('\t')
        elif name == 'text:line-break':
            chunks.append('\n')
    p.StartElementHandler = se
    p.CharacterDataHandler = chunks.append
    d = (b'<root>' + data.replace(b'&nbsp;', b'&#160;') + b'</root>') if wrap else data
    p.Parse(d, True)
    return ''.join(chunks), attrs


def latex_visible(out):
    out = re.sub(r'\\label\{[^}]*\}', '', out)
    out = re.sub(r'\\autoref\{[^}]*\}', '', out)
    out = re.sub(r'\\href\{[^}]*\}', '', out)
    out = re.sub(r'\\includegraphics\[[^\]]*\]\{[^}]*\}', '', out)
    out = re.sub(r'\\footnote\{\\href\{[^}]*\}\{[^}]*\}\}', '', out)     # printed copy of a link destination
    return out


LATEX_OK = {'\\': ['\\textbackslash{}', '$\\backslash$'], '{': ['\\{'], '}': ['\\}'], '$': ['\\$'], '%': ['\\%'], '&': ['\\&'], '#': ['\\#'], '_': ['\\_'],
            '^': ['\\^{}', '\\textasciicircum{}'], '~': ['\\ensuremath{\\sim}', '\\textasciitilde{}', '\\~{}'], '<': ['$<$', '\\textless{}', '<'], '>': ['$>$', '\\textgreater{}', '>'],
            '"': ["''", '``', '"', '\\textquotedbl{}', '\\enquote{', '}', '„', '“', '”', '«', '»', '\\glqq{}', '\\grqq{}', '\\flqq{}', '\\frqq{}', '>>', '<<', "'"]}
XML_OK = {'&': ['&amp;', '&#38;', '&#x26;'], '<': ['&lt;', '&#60;', '&#x3c;', '&#x3C;'], '>': ['&gt;', '&#62;', '&#x3e;', '&#x3E;'], '"': ['&quot;', '&#34;', '&#x22;']}
SMART_DQ = ['&#8220;', '&#8221;', '&#8222;', '&#171;', '&#187;', '&#8216;', '&#8217;', '&#8218;', '“', '”', '„', '«', '»', '&ldquo;', '&rdquo;', '&laquo;', '&raquo;', '&#8249;', '&#8250;']


def un_tt(s):
    """Undo the LaTeX escaping of \\texttt spans (incl. the ligature breakers the writer inserts)."""
    reps = [('\\textbackslash{}', '\\'), ('\\ensuremath{\\sim}', '~'), ('\\textasciitilde{}', '~'), ('\\^{}', '^'), ('\\textasciicircum{}', '^'), ('$<$', '<'), ('$>$', '>'),
            ('\\&', '&'), ('\\%', '%'), ('\\#', '#'), ('\\_', '_'), ('\\{', '{'), ('\\}', '}'), ('\\$', '$'), ('\\textbar{}', '|'), ('\\slash{}', '/'), ('-{}', '-'), ("'{}", "'"), ('`{}', '`'),
            ('{}', '')]
    out, i = '', 0
    while i < len(s):
        for a, b in reps:
            if s.startswith(a, i):
                out += b
                i += len(a)
                break
        else:
            out += s[i]
            i += 1
    return out


def tt_residue(s):
    """What is left of a \\texttt body after every accepted escape spelling has been taken out."""
    for a in ['\\textbackslash{}', '\\ensuremath{\\sim}', '\\textasciitilde{}', '\\^{}', '\\textasciicircum{}', '$<$', '$>$', '\\&', '\\%', '\\#', '\\_', '\\{', '\\}', '\\$',
              '\\textbar{}', '\\slash{}']:
        s = s.replace(a, ' ')
    return s


def latex_nesting(out):
    """begin/end stack discipline and brace balance outside verbatim environments."""
    stack = []
    pos = 0
    plain = []
    for m in re.finditer(r'\\(begin|end)\{([A-Za-z*]+)\}', out):
        kind, env = m.group(1), m.group(2)
        if env == 'document':
            continue      # \begin{document} lives in the support files named by the `latex config` metadata, not in the writer's output
        if stack and stack[-1] in ('verbatim', 'lstlisting') and not (kind == 'end' and env == stack[-1]):
            continue
        if not (stack and stack[-1] in ('verbatim', 'lstlisting')):
            plain.append(out[pos:m.start()])
        pos = m.end()
        if kind == 'begin':
            stack.append(env)
        else:
            if not stack or stack[-1] != env:
                return 'environment \\end{%s} closes %r' % (env, stack[-1] if stack else None)
            stack.pop()
    if stack:
        return 'unclosed environments %r' % stack
    plain.append(out[pos:])
    text = ''.join(plain)
    text = re.sub(r'\\verb(.).*?\1', '', text)
    depth = 0
    i = 0
    while i < len(text):
        c = text[i]
        if c == '\\':
            i += 2
            continue
        if c == '{':
            depth += 1
        elif c == '}':
            depth -= 1
            if depth < 0:
                return 'unbalanced closing brace near %r' % text[max(0, i - 40):i + 10]
        i += 1
    if depth != 0:
        return 'unbalanced braces (depth %d at end)' % depth
    return None


def strip_ids(t):
    t = re.sub(r' (id|href|xlink:href|text:name|text:ref-name|draw:name|xml:id)="#?[^"]*"', '', t)
    t = re.sub(r'\\(label|autoref|ref|hyperref|bibitem)\{[^}]*\}', '', t)
    t = re.sub(r'\\href\{[^}]*\}', '', t)
    return t


FORMATS = ['html', 'latex', 'beamer', 'memoir', 'fodt', 'opml']


def check(case, ctx):
    inst = Inst(case)
    doc = instantiate(single_use_notes(case['doc']), inst)
    complete = case['complete'] and bool(doc.get('meta')) and not case.get('compat')
    if not complete:
        doc = dict(doc, meta=None)
    if case.get('hlevel') and not case.get('compat'):
        # header levels shifted through metadata: the sectioning commands / frames / outline levels change, the text and the nesting rules do not
        doc = dict(doc, meta=(doc.get('meta') or []) + [list(case['hlevel'])])
        ctx.cls('header_level_metadata')
    src = gdoc.ser_doc(doc)
    if case.get('atail'):
        # headings, metadata values and code spans that END in a character whose last UTF-8 byte is 0xA0 / 0x85 (white space in Latin-1):
        # trimming at the end of these slots works on bytes
        t_ = case['atail']
        src = re.sub(r'(?m)^(#{1,6} .*[a-z0-9])$', lambda m: m.group(1) + t_, src)
        src = re.sub(r'(?m)^((?:Title|Author|Keywords|Copyright): .*[a-z0-9])$', lambda m: m.group(1) + t_, src)
        src = re.sub(r'(?m)^([a-z0-9][^\n]*[a-z0-9])(\n(?:=+|-+)\n)', lambda m: m.group(1) + t_ + m.group(2), src)
        ctx.cls('slots_ending_in_byte_a0')
    if case.get('renotes') and not case.get('compat'):
        # a glossary term and an abbreviation whose NAMES carry reserved characters, each used twice (the second use of a note takes another branch)
        src += ('\n\nUses [?R&D <1> "unit"] twice [?R&D <1> "unit"] and [>AT&T] twice [>AT&T].\n\n[?R&D <1> "unit"]: glossary text\n\n[>AT&T]: expansion\n')
        ctx.cls('reused_notes_with_reserved_characters_in_their_names')
    if '\x00' in src:
        return
    ext = EXT['NOTES'] | EXT['CRITIC'] | (EXT['SMART'] if case['smart'] else 0) | (EXT['COMPLETE'] if complete else EXT['SNIPPET'])
    if case.get('nolabels') and not case.get('compat'):
        ext |= EXT['NO_LABELS']          # headings and tables without generated ids
        ctx.cls('no_labels')
    if case.get('compat'):
        # compatibility mode: plain Markdown constructs only (the generator uses CFG_COMPAT), no metadata
        ext = EXT['COMPAT'] | (EXT['SMART'] if case['smart'] else 0) | EXT['SNIPPET']
        ctx.cls('compat_mode')
    w = ctx.w
    body_src = gdoc.ser_blocks(doc['blocks'])
    src_w = re.findall(r'w\d{6}', body_src)
    src_n = []
    # note words in order of first reference
    notes = dict((f, t) for f, t in doc.get('notes', []))
    for f in re.findall(r'\[\^(fn\d+)\]', body_src):
        src_n += re.findall(r'n\d{6}', notes.get(f, ''))
    fail = lambda sig, msg: Violation(sig, '%s\nsmart=%s complete=%s\nsource=%r' % (msg, case['smart'], complete, src))
    # one shared parse tree feeds every writer: parse once, export through every writer in a generated order, and require each export to
    # equal the fresh conversion of that format (a writer that edits the tree, or state kept between exports, shows here)
    fresh = {}
    for fmt in FORMATS:
        r = w.convert(src, fmt, ext, case.get('lang', 0), api='sd')
        if r.status != 'ok':
            raise fail('convert:%s:%s' % (fmt, r.status), '')
        fresh[fmt] = r.out
    order = [f for f in (case.get('order') or []) if f in ('html', 'latex', 'beamer', 'memoir', 'opml')]
    if order:
        w.call('pool', 'init')
        eid = w.call('enew', ext, src)[1]
        w.call('elang', eid, case.get('lang', 0))
        try:
            for fmt in order:
                got = w.call('eexport', eid, FMT[fmt])[1]
                if got.rstrip(b'\n') != fresh[fmt].rstrip(b'\n'):
                    i = 0
                    while i < min(len(got), len(fresh[fmt])) and got[i] == fresh[fmt][i]:
                        i += 1
                    raise fail('shared-tree:%s' % fmt, 'exporting the parsed tree again (order %s) differs from a fresh %s conversion\nfresh: %r\nhere:  %r'
                               % (order, fmt, fresh[fmt][max(0, i - 60):i + 100], got[max(0, i - 60):i + 100]))
            ctx.cls('shared_tree_exports', len(order))
        finally:
            w.call('efree', eid)
            w.call('pool', 'drain')
    for fmt in FORMATS:
        raw = fresh[fmt]
        text = raw.decode('utf-8', 'replace')
        # (4) nesting + (0) visible text
        if fmt in ('html', 'fodt', 'opml'):
            try:
                vis, attrs = xml_visible(raw, fmt == 'html' and not complete, fmt)
            except expat.ExpatError as e:
                line = raw.split(b'\n')[e.lineno - 1][max(0, e.offset - 80):e.offset + 40] if e.lineno <= raw.count(b'\n') + 1 else b''
                raise fail('nesting:%s' % fmt, '%s: %s near %r' % (fmt, e, line))
        else:
            bad = latex_nesting(text)
            if bad:
                raise fail('nesting:%s' % fmt, '%s: %s\n%s' % (fmt, bad, text[-700:]))
            vis, attrs = latex_visible(text), []
        # (1) words
        if fmt == 'opml':
            allv = ''.join(v for k, v in attrs if k in ('text', '_note'))
            got_w = re.findall(r'w\d{6}', allv)
            if got_w != src_w:
                raise fail('words:%s' % fmt, 'body words differ\nsource order %r\noutput order %r' % (src_w, got_w))
        else:
            got_w = re.findall(r'w\d{6}', vis)
            got_n = re.findall(r'n\d{6}', vis)
            if got_w != src_w:
                lost = [x for x in src_w if x not in got_w]
                dup = sorted(set(x for x in got_w if got_w.count(x) > 1))
                kind = 'lost' if lost else 'repeated' if dup else 'reordered'
                raise fail('words:%s:%s' % (kind, fmt), '%s: body words %s: lost=%r repeated=%r\nsource order %r\noutput order %r\noutput=%r' % (fmt, kind, lost, dup, src_w, got_w, text[-900:]))
            if got_n != src_n:
                raise fail('words:notes:%s' % fmt, '%s: note words %r expected %r' % (fmt, got_n, src_n))
            for pre in ('a', 't'):
                for x in set(re.findall(r'%s\d{6}' % pre, vis)):
                    if vis.count(x) > 1:
                        raise fail('words:attribute-text-duplicated:%s' % fmt, '%s appears %d times in the body text' % (x, vis.count(x)))
        # (2) escaping of reserved characters: judged on the RAW bytes between the sentinels (generated ids / labels / anchors removed first:
        #     they are derived from the text with everything but letters and digits dropped)
        text = strip_ids(text)
        for k, (ch, slot) in inst.slots.items():
            if slot == 'meta' and not complete:
                continue
            ms = re.findall(r'q%da(.*?)0%dq' % (k, k), text, re.S)
            if not ms:
                if slot in ('title', 'meta') or fmt == 'opml' and slot == 'meta':
                    continue          # attribute-only text may be absent in a format
                raise fail('escape:missing:%s' % fmt, '%s: sentinel q%d (%r in %s) not found' % (fmt, k, ch, slot))
            for mid in ms:
                if fmt == 'opml':
                    want = xml_attr(spell(ch) if slot not in ('title', 'meta') else ch) + (xml_attr('\\' + ch) if ch in '<>' else [])
                    if mid not in want:
                        raise fail('escape:opml', 'opml: %r in %s written as %r, accepted %r' % (ch, slot, mid, want))
                    continue
                if fmt in ('html', 'fodt'):
                    if ch in HTML_RES:
                        ok = mid in XML_OK[ch] or (ch == '"' and mid in SMART_DQ)
                    else:
                        ok = mid == ch
                else:
                    if ch in LATEX_RES:
                        ok = mid in LATEX_OK[ch]
                    elif ch in LATEX_OK:
                        ok = mid in LATEX_OK[ch] or mid in SMART_DQ
                    else:
                        ok = mid == ch
                if not ok:
                    raise fail('escape:%s:%s' % (fmt, 'attr' if slot in ('title', 'meta') else 'text'), '%s: reserved %r in slot %s written as %r' % (fmt, ch, slot, mid))
                ctx.cls('cell:%s:%s' % (fmt, slot.split('/')[0]))
        # (3) verbatim regions
        for k, (payload, kind) in inst.verb.items():
            if fmt == 'opml':
                allv = ''.join(v for kk, v in attrs if kk in ('text', '_note'))
                m = re.search(r'vS%dz (.*?) vE%dz' % (k, k), allv, re.S)
                if not m or m.group(1) != payload:
                    raise fail('verbatim:opml', 'opml: %s payload %r came back as %r' % (kind, payload, m.group(1) if m else None))
                continue
            m = re.search(r'vS%dz (.*?) vE%dz' % (k, k), vis, re.S)
            if not m:
                raise fail('verbatim:missing:%s' % fmt, '%s: %s payload %r not found' % (fmt, kind, payload))
            mid = m.group(1)
            if fmt in ('html', 'fodt'):
                ok = mid == payload
            elif kind in ('span', 'cellspan'):
                ok = un_tt(mid) == payload or un_tt(mid) == payload.replace('"', "''")       # the LaTeX writer spells " as '' also inside \\texttt
                if ok and re.search(r'[~^&%#_$]', tt_residue(mid)):
                    # a character that is active in LaTeX arrived bare inside \\texttt (it would not be typeset as itself)
                    raise fail('verbatim:%s:span:bare-active' % fmt, '%s: span payload %r written as %r' % (fmt, payload, mid))
            elif kind == 'math':
                ok = mid == payload or un_tt(mid) == payload         # e.g. / is spelled \\slash{}
            else:
                ok = mid == payload
            if not ok:
                raise fail('verbatim:%s:%s' % (fmt, 'span' if 'span' in kind else kind), '%s: %s payload %r came back as %r' % (fmt, kind, payload, mid))
    for k_, n_ in list(EXCLUDED.items()):
        ctx.cls('excluded_by_construction:' + k_, n_)
        del EXCLUDED[k_]
    slots = set(s.split('/')[0] for _, s in inst.slots.values())
    if len(slots) >= 3:
        ctx.nontrivial(src)
        ctx.sample(src[:500])


def xml_attr(s):
    a = s.replace('&', '&amp;').replace('<', '&lt;').replace('>', '&gt;').replace('"', '&quot;')
    return [a, a.replace("'", '&apos;'), a.replace("'", '&#39;')]


def run(tier):
    return hyp.run(__import__('props.c04', fromlist=['x']), tier, quick_s=30, thorough_s=600, chunk=150)


def replay(path):
    return hyp.replay(__import__('props.c04', fromlist=['x']), path)
