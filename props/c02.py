"""C02 — every input yields a complete rendering; nothing is silently dropped (E4 enumerator + E1 fuzz target)."""
import json
import os
import shutil
import subprocess

from lib import common, fuzz, vbuild

PROP = 'C02'
RULE = ('(i) bounded-exhaustive enumeration of all sequences of 39 line-kind representatives (the plain line calls every kind of definition; one composite kind is blank+indented continuation) up to length L (quick L=3, thorough L=4), every ordered pair of kinds repeated 1200 (quick) or 3000 (thorough) times as one long document, and '
        'random sequences of length 5..12, each through 7 writers (html, latex, beamer, memoir, fodt, opml, itmz) x {MMD, compatibility}; '
        'The long documents end with a paragraph of nested inline structure whose words must still be rendered (not claimed behind raw HTML / comments); one line kind carries formulas. (ii) coverage-guided fuzzing of arbitrary documents through the same writers/modes (+optional complete/process-html/critic bits). '
        'Oracle per conversion: control returns (exit() intercepted), fd 2 carries no "Unknown token type" / "Parser failed" / "Parser '
        'syntax error", the parse tree is not empty for a non-blank source, a leading plain line still shows in HTML/LaTeX/ODF, and (enumerator) '
        'the distinctive word of every plain line, list item, quote line, ATX heading and indented continuation that nothing can legitimately '
        'swallow (metadata block, uncalled definition, raw HTML block / comment, open fence) appears in the HTML, LaTeX-family and ODF output. '
        'Fuzz inputs that hit the time limit are re-run alone for 60 s: not returning is a violation (hang@function). Non-trivial: (sequence, writer, mode) of length>=2 whose tree has >=2 different top-level block types (counted in the enumerator), '
        'plus corpus additions of the fuzz leg.')


def enum_bin():
    return vbuild.harness('c02_linekinds', 'asan', ['c02_linekinds.cpp'], extra=['-Wl,--wrap=exit'])


def fuzz_bin():
    return vbuild.harness('fz_c02', 'fuzz', ['fz_c02.cpp'], extra=['-fsanitize=fuzzer', '-Wl,--wrap=exit'])


def prebuild():
    enum_bin()
    fuzz_bin()


def replay(path):
    """Replay files are either enumerator cases (first line `fmt=.. mode=..`) or raw fuzz inputs."""
    head = open(path, 'rb').read(12)
    if head.startswith(b'fmt='):
        p = subprocess.run([enum_bin(), 'replay', path], env=common.san_env(), stdout=subprocess.PIPE, stderr=subprocess.PIPE)
        if p.returncode == 0:
            print('replay passes:', path)
            return 0
        sig = common.san_signature(p.stderr)
        common.violation(PROP, path, common.sig_str(sig) if sig else p.stdout.decode(errors='replace').strip())
        return 1
    ok, sig, err = fuzz.execute(fuzz_bin(), path)
    if ok:
        print('replay passes:', path)
        return 0
    common.violation(PROP, path, sig)
    print(err[-2000:])
    return 1


def _sig_of_fail(line):
    kind, fmt, mode, path, detail = line.split('|', 4)
    import re
    m = re.search(r'Unknown token type: (\d+)', detail)
    return 'enum:%s:%s:%s%s' % (kind, fmt, mode, (':type%s' % m.group(1)) if m else ''), path, detail


def run(tier):
    ev = common.Evidence(PROP, tier)
    ev.rule = RULE
    ev.assumptions = ['one representative spelling per line kind in the enumerated core (variants are reached only through the fuzz leg)',
                      'diagnostics are observed on fd 2 of a build without NDEBUG; exit() is intercepted with --wrap=exit',
                      'sanitizer reports in this check are also violations (they end the conversion), classified by call site']
    known = common.Known()
    work = common.scratch_dir('c02')
    eb, fb = enum_bin(), fuzz_bin()
    L = 3 if tier == 'quick' else 4
    nsh = common.NCPU
    failures = []          # (sig, replay path, detail)
    # fuzz leg runs concurrently with the enumerator on a few cores
    secs = int((30 if tier == 'quick' else 900) * common.budget_scale())
    texts = os.path.join(work, 'seed-texts')
    os.makedirs(texts)
    for p in fuzz.corpus_texts():
        shutil.copy(p, os.path.join(texts, common.sha(p) + '.text'))
    regress = os.path.join(common.SEEDS, PROP, 'fuzz')
    camp = fuzz.Campaign(fb, 'fuzz', work, [texts, regress], max_len=4096, dict_path=os.path.join(common.SEEDS, 'dict', 'mmd.dict'))
    camp.start(secs, 4 if tier == 'quick' else 8, common.seed())
    # committed enumerator-format regressions
    rd = os.path.join(common.SEEDS, PROP, 'enum')
    if os.path.isdir(rd):
        for f in sorted(os.listdir(rd)):
            p = subprocess.run([eb, 'replay', os.path.join(rd, f)], env=common.san_env(), stdout=subprocess.PIPE, stderr=subprocess.PIPE)
            ev.add_class('regression_replays')
            if p.returncode != 0:
                sig = common.san_signature(p.stderr)
                failures.append((common.sig_str(sig) if sig else 'enum:' + p.stdout.decode(errors='replace').strip().split('|')[0], os.path.join(rd, f), p.stdout.decode(errors='replace')))
    jobs = []
    for length in range(1, L + 1):
        n = 1 if length < 3 else nsh
        for i in range(n):
            od = os.path.join(work, 'e%d_%d' % (length, i))
            os.makedirs(od)
            jobs.append((od, ['enum', str(length), str(i), str(n), od]))
    # long documents: every ordered pair of kinds repeated (parser/engine counters that only matter past ~1000 blocks)
    reps = 1200 if tier == 'quick' else 3000
    for i in range(nsh):
        od = os.path.join(work, 'p%d' % i)
        os.makedirs(od)
        jobs.append((od, ['repeat', str(reps), str(i), str(nsh), od]))
    nrand = int((1500 if tier == 'quick' else 40000) * common.budget_scale())
    for i in range(nsh):
        od = os.path.join(work, 'r%d' % i)
        os.makedirs(od)
        jobs.append((od, ['random', str(nrand), str(common.seed() * 1000 + i), '5', '12', od]))
    running = []
    exhaustive_ok = True
    def reap(block=False):
        for od, p in list(running):
            if block:
                p.wait()
            if p.poll() is None:
                continue
            running.remove((od, p))
            st = os.path.join(od, 'stats.json')
            if p.returncode != 0 or not os.path.exists(st):
                err = open(os.path.join(od, 'err.txt'), 'rb').read()
                sig = common.san_signature(err)
                failures.append((common.sig_str(sig) if sig else 'enumerator-crash:rc=%s' % p.returncode, os.path.join(od, 'err.txt'), err.decode(errors='replace')[-1500:]))
                continue
            d = json.load(open(st))
            ev.evaluations += d['conversions']
            ev.nontrivial_extra += d['nontrivial']
            ev.add_class('documents', d['docs'])
            for s in d['samples']:
                ev.sample(s.replace('\\n', '\n'))
            for line in d['fails']:
                sig, path, detail = _sig_of_fail(line)
                failures.append((sig, path, detail))
    for od, args in jobs:
        while len(running) >= max(1, nsh - 4):
            reap()
            import time
            time.sleep(0.05)
        running.append((od, subprocess.Popen([eb] + args, env=common.san_env(), stdout=subprocess.DEVNULL, stderr=open(os.path.join(od, 'err.txt'), 'wb'))))
    while running:
        reap(block=True)
    camp.wait()
    ev.evaluations += camp.execs
    ev.nontrivial_extra += camp.corpus_new
    ev.add_class('fuzz_execs', camp.execs)
    ev.add_class('fuzz_corpus_new', camp.corpus_new)
    if camp.noise:
        ev.inconclusive.append('fuzz leg: %d timeout/oom artifacts (not verdicts)' % camp.noise)
    cl, unrepro = fuzz.classify_artifacts(fb, camp.artifacts)
    for sig, paths in cl.items():
        failures.append((sig, paths[0], ''))
    # an input that does not finish when it runs alone for a minute (typical: milliseconds) does not return control
    for sig, paths in fuzz.confirm_hangs(fb, camp.art, None, limit=2 if tier == 'quick' else 8, secs=60).items():
        failures.append((sig, paths[0], 'the conversion does not return within 60 s when the input runs alone'))
    ev.extra['exhaustive'] = True
    ev.extra['exhaustive_bound'] = 'all 39^k line-kind sequences for k <= %d, 7 writers x 2 modes' % L
    rcode = 0
    seen = set()
    for sig, path, detail in failures:
        k = known.match(PROP, sig)
        if k:
            if sig not in seen:
                common.known_line(PROP, sig, k['what'])
                ev.known_hit.append(sig)
        else:
            ev.violations += 1
            rcode = 1
            if sig not in seen:
                rp = common.save_replay(PROP, 'c02-%s' % common.sha(open(path, 'rb').read()), open(path, 'rb').read())
                common.violation(PROP, rp, sig)
                print(detail[:800])
        seen.add(sig)
    ev.write()
    shutil.rmtree(work, ignore_errors=True)
    print('%s %s: %d conversions, %d non-trivial, %d violations' % (PROP, tier, ev.evaluations, ev.nontrivial_extra, ev.violations))
    return rcode
