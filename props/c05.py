"""C05 — output is a function of (source, options) only: no hidden history (E3, histories vs. fresh-process reference)."""
import glob
import os

from hypothesis import strategies as st

from lib import hyp, pkg, vbuild, worker as wk
from lib.hyp import Violation
from lib.worker import EXT, FMT
from pbt import gdoc

PROP = 'C05'
RULE = ('Hypothesis-generated histories of 1..12 steps against ONE worker process: each step = (document, format, extensions, language, '
        'API shape) with documents from a pool chosen for statefulness (e-mail autolinks, notes/citations/glossary/abbreviations, headings '
        '+ cross-references, tables, images, metadata, CriticMarkup, a multi-slab document, OPML source) plus G-doc and corpus documents; '
        'API shapes: string / DString / to_data variants, a reused engine converting several formats with metadata queries in between (or metadata queries only, or a partial parse of a sub-range, before the engine goes on to the next step), '
        'in-place source replacement through mmd_engine_d_string(), and exporting the already parsed tree of a reused engine again through '
        'mmd_engine_export_token_tree() without re-parsing (one parse, many writers); random-anchor steps are executed as history but not compared; '
        'pool bracket per step or around the whole history. Oracle: every compared step equals the same call made FIRST in a fresh '
        '(non-sanitised) process; the caller\'s buffer is unchanged (or holds the converted text for OPML sources). Packages are compared '
        'member by member under a UUID/date mask. Also: sessions of one OPML-importing engine (parsed formats, the MMD text, metadata queries in between), sessions of documents nested around the parser depth limit (997..2000 quote levels), and re-exports preceded by exports through other writers; the library must stay silent on fd 2 while a parsed tree is exported again. Non-trivial: history of length>=2 where a compared step follows a step with a stateful '
        'feature; distinct by serialised history.')
ASSUMPTIONS = ['the fresh-process reference is produced by the `plain` build of the same worker, one new process per distinct (doc, fmt, ext, lang)',
               'EPUB/ODT/TextBundle/ITMZ contain declared-random UUIDs, today\'s date and zip timestamps: compared under a mask applied to both sides',
               'steps with EXT_RANDOM_FOOT / EXT_RANDOM_LABELS are not compared (exempt by the statement)']

STATEFUL = [
    'Contact <someone@example.com> and <mailto:other@example.org> please.\n\n[mail](mailto:third@example.net)\n',
    'Text[^a] more[^b] again[^a].\n\n[^a]: first note\n[^b]: second note with <x@y.zz>\n',
    'Cite [#k1] and [#k2;] and [p. 3][#k1].\n\n[#k1]: Ref one\n[#k2]: Ref two\n',
    'Term [?gloss] and [?(inline) an inline def] and abbr [>HTML] [>(ab) inline abbr].\n\n[?gloss]: A glossary entry\n[>HTML]: HyperText\n',
    '# Intro #\n\nSee [Intro][] and [Second Part][] and [Intro].\n\nSecond Part\n-----------\n\n## Intro ##\n\n{{TOC}}\n',
    '| a | b |\n|---|:-:|\n| 1 | 2 |\n[Caption here][tab]\n\nSee [tab][].\n',
    '![fig one](pic.png "Title")\n\nInline ![img](img/pic2.png) and ![ref][r].\n\n[r]: pic.png "T" width=40px\n',
    'Title: The Title\nAuthor: A & B\nBase Header Level: 2\nlanguage: de\n\n# Head\n\n"Quoted" text -- dash... [%title]\n',
    'Critic {++add++} {--del--} {~~old~>new~~} {==hi==}{>>comment<<} done.\n',
    'HTML <span class="x">inline</span> &amp; &copy; entity\n\n<div>\nblock *raw*\n</div>\n',
    '*Emph* **strong** `code` ``co`de`` <http://auto.link/> [link](http://x.y/ "t")\n\n    indented code <&>\n\n```python\nfenced & <b>\n```\n',
    'She said "hello" and \'bye\' -- it\'s the 1990\'s... <<guillemets>> too.\n\nSee note[^q].\n\n[^q]: a "quoted" note\n',
    '1. one\n2. two\n\n    cont para\n\n* a\n    * nested\n\n> quote\n> more\n\nTerm\n: Definition\n\n$$x^2$$ and \\\\(y_1\\\\) and x^2^ H~2~O\n',
]
OPML_DOC = ('<?xml version="1.0" encoding="UTF-8"?>\n<opml version="1.0">\n<head><title>T</title></head>\n<body>\n<outline text="Heading &amp; One" '
            '_note="Body text&#10;&#10;more"><outline text="Sub" _note="x &lt; y"/></outline>\n<outline text="&gt;&gt;Metadata&lt;&lt;"><outline text="author" _note="Me"/></outline>\n</body>\n</opml>\n')
MULTISLAB = ''.join('*a%d* **b** `c` [l](u%d) ' % (i, i) + ('\n\n' if i % 7 == 0 else '') for i in range(900))

CFG = gdoc.Cfg(inlines=['t', 'em', 'st', 'code', 'link', 'img', 'auto', 'email', 'esc', 'smart', 'fnref', 'ifn'],
               blocks=['para', 'atx', 'setext', 'hr', 'fence', 'icode', 'quote', 'list', 'table', 'figure', 'toc'])
FMTS = ['html', 'latex', 'beamer', 'memoir', 'fodt', 'opml', 'mmd', 'htmlassets', 'epub', 'odt', 'bundlezip', 'itmz']
EXTS = [wk.EXT_DEFAULT, wk.EXT_DEFAULT | EXT['OBFUSCATE'], wk.EXT_COMPAT, EXT['SMART'] | EXT['NOTES'] | EXT['COMPLETE'],
        EXT['NOTES'] | EXT['NO_LABELS'] | EXT['SNIPPET'], wk.EXT_DEFAULT | EXT['CRITIC_ACCEPT'], wk.EXT_DEFAULT | EXT['CRITIC_REJECT'],
        wk.EXT_DEFAULT | EXT['PROCESS_HTML'], wk.EXT_DEFAULT | EXT['RANDOM_FOOT'], wk.EXT_DEFAULT | EXT['RANDOM_LABELS']]
RANDOMS = EXT['RANDOM_FOOT'] | EXT['RANDOM_LABELS']
_corpus = None


def corpus():
    global _corpus
    if _corpus is None:
        _corpus = [open(p, 'rb').read().decode('utf-8', 'replace') for p in sorted(glob.glob(os.path.join(vbuild.REPO, 'tests', 'MMD6Tests', '*.text')))
                   if os.path.getsize(p) < 5000]
    return _corpus


docref = st.one_of(st.integers(0, len(STATEFUL) - 1).map(lambda i: ['s', i]), st.integers(0, len(STATEFUL) - 1).map(lambda i: ['s', i]),
                   st.integers(0, 200).map(lambda i: ['c', i]), gdoc.document(CFG).map(lambda d: ['g', d]), st.just(['m', 0]), st.just(['o', 0]))
step = st.fixed_dictionaries({'doc': docref, 'fmt': st.sampled_from(FMTS), 'ext': st.sampled_from(EXTS), 'lang': st.integers(0, 6),
                              'api': st.sampled_from(['s', 'd', 'sd', 'dd', 'e', 'ed', 'E', 'E', 'Esrc', 'Emeta', 'Eexp', 'Eexp', 'Equery', 'Esub', 'Esame'])})


def _session(case):
    """One engine object for the whole history: every step goes through the reused engine with the extension set of the first step (so the
    engine is never re-created), under one outer pool bracket; documents, formats, languages and the engine API shapes still vary."""
    if not case.get('session'):
        return case
    if case['session'] == 2:
        # an engine that imports OPML: the first conversion replaces the engine's text with the imported text, later conversions (other
        # formats, the MMD text itself, metadata queries in between) must still answer like a fresh engine given the OPML source
        ext = ((case['steps'][0]['ext'] & ~RANDOMS) | EXT['PARSE_OPML']) & ~EXT['COMPAT']
        steps = [dict(s, ext=ext, doc=['o', 0], api=('E', 'E', 'Emeta')[i % 3], fmt=s['fmt'] if s['fmt'] in ('html', 'latex', 'mmd', 'opml', 'fodt') else 'mmd')
                 for i, s in enumerate(case['steps'])]
        return dict(case, steps=steps, outer_pool=True)
    if case['session'] == 3:
        # nesting around the parser's depth limit: a document beyond the limit, then documents just below it, on one engine
        ext = case['steps'][0]['ext'] & ~RANDOMS & ~EXT['COMPAT']
        depths = [1005, 997, 2000, 996, 997, 1001, 995]
        steps = [dict(s, ext=ext, doc=['n', depths[(i + case['steps'][0]['lang']) % len(depths)]], api='E', fmt=s['fmt'] if s['fmt'] in ('html', 'latex', 'opml') else 'html')
                 for i, s in enumerate(case['steps'])]
        return dict(case, steps=steps, outer_pool=True)
    ext = case['steps'][0]['ext'] & ~RANDOMS
    steps = []
    keep_lang = case['steps'][0]['lang'] % 2 == 0        # half of the sessions never call mmd_engine_set_language() again after the first step
    for s in case['steps']:
        s = dict(s, ext=ext)
        if keep_lang:
            s['lang'] = case['steps'][0]['lang']
        if not s['api'].startswith('E'):
            s['api'] = ('E', 'Esrc', 'Emeta', 'Eexp', 'Equery', 'Esub', 'Esame')[len(steps) % 7]
        if s['doc'][0] == 'o':
            s['doc'] = ['s', 0]
        steps.append(s)
    return dict(case, steps=steps, outer_pool=True)


def strategy(tier):
    return st.fixed_dictionaries({'steps': st.lists(step, min_size=1, max_size=12), 'outer_pool': st.booleans(),
                                  'session': st.sampled_from([0, 0, 0, 0, 1, 1, 2, 3])}).map(_session)


def doc_text(d):
    k, v = d
    if k == 's':
        return STATEFUL[v]
    if k == 'c':
        c = corpus()
        return c[v % len(c)]
    if k == 'g':
        return gdoc.ser_doc(v)
    if k == 'm':
        return MULTISLAB
    if k == 'n':
        return '>' * v + ' deeptext inside %d quote levels\n' % v
    return OPML_DOC


def is_stateful(s):
    t = doc_text(s['doc'])
    return ('@' in t or '[^' in t or '[#' in t or '[?' in t or s['ext'] & RANDOMS or s['api'].startswith('E') or s['doc'][0] in ('m', 'o'))


def shard_init(ctx, idx):
    ctx.refs = {}
    wk.binary('plain')


FIX = None


def same(fmt, a, b):
    if pkg.is_package_fmt(fmt):
        try:
            return pkg.masked_view(a) == pkg.masked_view(b)
        except Exception:
            return a == b
    return a == b


def check(case, ctx):
    global FIX
    if FIX is None:
        from lib import fuzz
        FIX = fuzz.fixture()
    w = ctx.w
    w.restart()          # every history starts in a fresh process, so a failing case is self-contained and replayable
    steps = case['steps']
    if case['outer_pool']:
        w.call('pool', 'init')
    engine = None       # (id, ext, text, lang)
    prev_stateful = False
    nontrivial = False
    try:
        for n, s in enumerate(steps):
            text = doc_text(s['doc'])
            fmt, ext, lang, api = s['fmt'], s['ext'], s['lang'], s['api']
            if s['doc'][0] == 'o':
                ext = (ext | EXT['PARSE_OPML']) & ~RANDOMS
            compare = not (ext & RANDOMS)
            where = 'step %d/%d api=%s fmt=%s ext=%#x lang=%d doc=%s' % (n + 1, len(steps), api, fmt, ext, lang, s['doc'][0])
            if api in ('s', 'd', 'e') and pkg.is_package_fmt(fmt):
                api = api + 'd' if api != 'e' else 'ed'          # archives need the to_data shape
            if not api.startswith('E'):
                r = w.convert(text, fmt, ext, lang, api=api, directory=FIX if api.endswith('d') and len(api) == 2 else '')
                status, out = r.status, r.out
                if api in ('d', 'dd'):
                    if s['doc'][0] == 'o':
                        conv = w.call('opml2text', 's', text)[1]
                        if not r.src_same and r.src_after != conv:
                            raise Violation('source:opml-neither-original-nor-converted', '%s\nafter=%r\nconverted=%r' % (where, (r.src_after or b'')[:300], conv[:300]))
                    elif not r.src_same:
                        raise Violation('source:modified', '%s\nbefore=%r\nafter=%r' % (where, text[:300], (r.src_after or b'')[:300]))
            else:
                # reused engine: (re)create when options differ, otherwise keep converting with the same object
                if not case['outer_pool']:
                    # a held engine needs its tokens to survive between calls
                    w.call('pool', 'init')
                if engine is None or engine[1] != ext:
                    if engine is not None:
                        w.call('efree', engine[0])
                    eid = w.call('enew', ext, text)[1]
                    engine = [eid, ext, text, lang]
                    w.call('elang', eid, lang)
                elif api == 'Esrc' or engine[2] != text:
                    w.call('esrc', engine[0], text)
                    engine[2] = text
                    engine[4:] = []          # the tree the engine may still hold belongs to the previous text: a conversion has to parse first
                if engine[3] != lang:
                    w.call('elang', engine[0], lang)
                    engine[3] = lang
                if api == 'Esame' and s['doc'][0] != 'o':
                    # the caller edits the engine's text in place and keeps its LENGTH (markup characters swapped for plain ones): the tree the
                    # engine built for the old bytes says nothing about the new ones
                    t2 = text.replace('*', "'").replace('`', '"').replace('# ', '1 ').replace('[', '(').replace(']', ')')
                    if t2 != text and len(t2.encode('utf-8', 'surrogateescape')) == len(text.encode('utf-8', 'surrogateescape')):
                        w.call('econv', engine[0], 'e', FMT['html'], FIX)
                        w.call('esrc', engine[0], t2)
                        engine[2] = text = t2
                        engine[4:] = []
                        ctx.cls('same_length_in_place_edit')
                if api in ('Emeta', 'Equery'):
                    w.call('ehas', engine[0])
                    w.call('ekeys', engine[0])
                    w.call('evalue', engine[0], 'title')
                if api == 'Esub' and case['outer_pool']:
                    # a partial parse of a sub-range that does not start at 0 (metadata is not looked for there) must leave no trace either
                    w.call('esub', engine[0], 1 + s['lang'] * 7, 40 + s['lang'] * 11)
                    ctx.cls('api_Esub')
                    engine[4:] = []
                    prev_stateful = True
                    continue
                if api == 'Equery' and case['outer_pool']:
                    # metadata queries only (they parse just the metadata block): the engine goes on to the next step without a conversion
                    ctx.cls('api_Equery')
                    engine[4:] = []
                    prev_stateful = True
                    continue
                exported = api == 'Eexp' and fmt in ('html', 'latex', 'beamer', 'memoir', 'opml') and s['doc'][0] != 'o'
                if exported:
                    # one parse, many exports: the tree that an earlier export of this engine has walked is exported again without re-parsing
                    # (a changed source was written with esrc above: the worker parses when the engine has no tree, so force a parse by a
                    # conversion first when the text changed)
                    if engine[4:] != [text]:
                        w.call('econv', engine[0], 'e', FMT['html'], FIX)
                        engine[4:] = [text]
                    # (other writers walk the same tree first: an export must leave the parse as it found it, whichever writer it was)
                    for pre in (['itmz', 'opml'], ['fodt'], [], ['latex', 'itmz'], ['beamer'], ['opml', 'fodt', 'html'])[(n + lang) % 6]:
                        w.call('eexport', engine[0], FMT[pre])
                        ctx.cls('export_preceded_by_another_writer')
                    rr = w.call('eexport', engine[0], FMT[fmt])
                    diag = w.diagnostics()
                    if diag.strip():
                        raise Violation('export:diagnostic-on-stderr', '%s\nexporting the parsed tree again made the library print: %r' % (where, diag[:300]))
                    rr = [rr[0], rr[1] + b'\n', text.encode('utf-8', 'surrogateescape')]      # mmd_engine_convert = parse + this export + one newline
                    ctx.cls('export_without_reparse')
                else:
                    rr = w.call('econv', engine[0], 'ed' if pkg.is_package_fmt(fmt) or fmt in ('fodt', 'mmd') else 'e', FMT[fmt], FIX)
                    engine[4:] = [text] if fmt != 'mmd' else []        # (the mmd "format" returns the source without parsing it)
                status, out = rr[0].decode(), rr[1]
                after = rr[2]
                if s['doc'][0] != 'o' and after.decode('utf-8', 'surrogateescape') != text:
                    raise Violation('source:modified', '%s (engine)\nbefore=%r\nafter=%r' % (where, text[:300], after[:300]))
                if not case['outer_pool']:
                    w.call('pool', 'drain')
                    # tokens are gone now: the engine must not be reused across this drain
                    w.call('pool', 'init'); w.call('efree', engine[0]); w.call('pool', 'drain')
                    engine = None
            if compare:
                # e / s / d return the body; ed/sd/dd the data form -- the reference is made with the same shape
                shape = 'data' if (api in ('sd', 'dd', 'ed') or (api.startswith('E') and (pkg.is_package_fmt(fmt) or fmt in ('fodt', 'mmd')))) else 'str'
                if api == 'Eexp' and exported:
                    shape = 'str'
                rs, rout = reference_shape(ctx, text, fmt, ext, lang, shape)
                if status != rs or not same(fmt, out, rout):
                    raise Violation('history:differs-from-fresh-process',
                                    '%s\nfresh=%r\nhere =%r\nhistory=%s' % (where, diff_excerpt(rout, out)[0], diff_excerpt(rout, out)[1],
                                                                           [(x['api'], x['fmt'], hex(x['ext']), x['doc'][0]) for x in steps[:n + 1]]))
                if prev_stateful and n >= 1:
                    nontrivial = True
            ctx.cls('api_' + s['api'])
            prev_stateful = prev_stateful or is_stateful(s)
    finally:
        if engine is not None:
            w.call('efree', engine[0])
        if case['outer_pool']:
            w.call('pool', 'drain')
    ctx.cls('len_%d' % min(len(steps), 12))
    if nontrivial:
        ctx.nontrivial(repr([(s['api'], s['fmt'], s['ext'], s['lang'], doc_text(s['doc'])[:200]) for s in steps]))
        ctx.sample([(s['api'], s['fmt'], hex(s['ext']), s['lang'], s['doc'][0]) for s in steps])


def reference_shape(ctx, text, fmt, ext, lang, shape):
    key = (text, fmt, ext, lang, shape)
    if key not in ctx.refs:
        if len(ctx.refs) > 4000:
            ctx.refs.clear()
        w = wk.Worker('plain')
        try:
            r = w.convert(text, fmt, ext, lang, api='sd' if shape == 'data' else 's', directory=FIX if shape == 'data' else '')
            ctx.refs[key] = (r.status, r.out)
        finally:
            w.close()
    return ctx.refs[key]


def diff_excerpt(a, b):
    i = 0
    while i < min(len(a), len(b)) and a[i] == b[i]:
        i += 1
    lo = max(0, i - 60)
    return a[lo:i + 120], b[lo:i + 120]


def prebuild():
    wk.binary('plain')


def run(tier):
    return hyp.run(__import__('props.c05', fromlist=['x']), tier, quick_s=30, thorough_s=600, chunk=150)


def replay(path):
    return hyp.replay(__import__('props.c05', fromlist=['x']), path)
