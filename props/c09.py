"""C09 — package outputs are valid archives with the required members (E3; Python zipfile as independent reader)."""
import io
import json
import os
import re
import subprocess
import xml.etree.ElementTree as ET
import zipfile

from hypothesis import strategies as st

from lib import hyp, pkg, vbuild, worker as wk
from lib.hyp import Violation
from lib.worker import EXT
from pbt import gdoc

PROP = 'C09'
RULE = ('G-doc documents with hostile titles/metadata, headings of all styles, {{TOC}}, 0..4 images (inline, titled, reference-defined, figures) whose '
        'files exist / do not exist in the asset directory or are remote, optional css metadata x {epub, odt, bundlezip, itmz} x {directory = '
        'fixture, NULL} x {to_data, sampled CLI -o}. Oracle (independent reader: Python zipfile): archive opens, every member passes its CRC, no '
        'duplicate names; EPUB: mimetype first with the EPUB media type, container.xml names OEBPS/main.opf, the OPF manifest lists nav.xhtml and '
        'main.xhtml and both exist; ODT: mimetype first and stored with the ODT media type, content/styles/meta/settings exist and the manifest '
        'lists them and every Pictures/ member; TextBundle: info.json is JSON and the text member exists; ITMZ: mapdata.xml. Main document: EPUB '
        'main.xhtml == complete HTML (in-document TOC removed, k-th asset reference aligned); ODT office:text == FODT office:text modulo picture '
        'paths; TextBundle text == source modulo asset substitution; ITMZ mapdata == FORMAT_ITMZ body under the UUID mask. Asset table: URL<->archive '
        'path is a bijection and every referenced asset whose file exists is a member with identical bytes. Every case starts with a conversion that draws from the e-mail obfuscation sequence (so a package writer that forgets to restart it fails deterministically); the CLI leg also packs a {{part.*}} wildcard transclusion and looks for the html / fodt flavour in the main document. Non-trivial: source with >=1 heading '
        'and >=1 image/css whose file exists; distinct by (source, format, directory).')
ASSUMPTIONS = ['an image whose file does not exist (or is remote; the build has no libcurl) gets an asset path but no member; that is accepted',
               'TextBundle substitutes only image destinations it can match textually (titled inline images keep their URL); not asserted either way',
               'UUIDs / dates are declared-random and compared as patterns']

IMAGES = ['pic.png', 'img/pic2.png', 'missing.png', 'pic.png', 'http://example.com/remote.png', 'img/../pic.png']
HOSTILE = ['alpha', 'beta & gamma', '"q"', "it's", '1 < 2', 'é中', 'tab\there', 'x > y', '&amp;', '100%']
CFG = gdoc.Cfg(words=st.sampled_from(HOSTILE + ['plain', 'words', 'here']), inlines=['t', 'em', 'st', 'code', 'link', 'img', 'fnref', 'cite', 'gloss', 'email'],
               blocks=['para', 'atx', 'setext', 'hr', 'fence', 'quote', 'list', 'table', 'figure', 'toc'],
               images=st.sampled_from(IMAGES), titles=st.sampled_from([None, None, 'Title here', 'T & "q"']),
               meta=st.lists(st.one_of(st.tuples(st.sampled_from(['Title', 'Author', 'css', 'Date', 'Keywords']), st.sampled_from(['A & B "t" <x>', 'style.css', 'Jane', '2020-01-01', 'é中'])),
                                        st.tuples(st.sampled_from(['ODF Header Level', 'Base Header Level', 'language']), st.sampled_from(['2', '3', '2', 'de']))),
                             max_size=3, unique_by=lambda t: t[0]).map(lambda m: [['css', 'style.css'] if k == 'css' else [k, v] for k, v in m] or None))


def strategy(tier):
    return st.fixed_dictionaries({'doc': gdoc.document(CFG), 'fmt': st.sampled_from(['epub', 'odt', 'bundlezip', 'itmz']), 'usedir': st.sampled_from([True, True, False]),
                                  'cli': st.integers(0, 9), 'ext': st.sampled_from([wk.EXT_DEFAULT, wk.EXT_DEFAULT & ~EXT['SMART'], wk.EXT_DEFAULT | EXT['NO_LABELS'], wk.EXT_DEFAULT | EXT['OBFUSCATE'], wk.EXT_COMPAT, wk.EXT_DEFAULT | EXT['CRITIC_ACCEPT'], wk.EXT_DEFAULT | EXT['RANDOM_FOOT'] | EXT['RANDOM_LABELS'], wk.EXT_DEFAULT | EXT['RANDOM_FOOT']])})


UU = r'[0-9a-fA-F]{8}-[0-9a-fA-F]{4}-[0-9a-fA-F]{4}-[0-9a-fA-F]{4}-[0-9a-fA-F]{12}'


def align(pack_text, plain_text, prefix, urls, fail):
    """Replace asset paths on one side and the original URLs on the other by placeholders; check URL<->path is a bijection.
    Returns (pack', plain', mapping url->uuid)."""
    seq_uuid = re.findall(r'%s(%s)' % (re.escape(prefix), UU), pack_text)
    pat = re.compile(r'((?:src|href|xlink:href)=")(%s)(")' % '|'.join(sorted((re.escape(xml_attr(u)) for u in urls), key=len, reverse=True))) if urls else None
    seq_url = [m.group(2) for m in pat.finditer(plain_text)] if pat else []
    p1 = re.sub(r'%s%s' % (re.escape(prefix), UU), 'ASSET', pack_text)
    p2 = pat.sub(lambda m: m.group(1) + 'ASSET' + m.group(3), plain_text) if pat else plain_text
    mapping = {}
    if len(seq_uuid) == len(seq_url):
        back = {}
        for u, url in zip(seq_uuid, seq_url):
            if mapping.setdefault(url, u) != u or back.setdefault(u, url) != url:
                raise fail('assets:not-a-bijection', 'url %r <-> %r conflicts with %r' % (url, u, mapping))
    return p1, p2, mapping


def xml_attr(s):
    return s.replace('&', '&amp;').replace('<', '&lt;').replace('>', '&gt;').replace('"', '&quot;')


def strip_toc(html):
    return re.sub(r'<div class="TOC">.*?</div>\n\n', '', html, flags=re.S)


def check(case, ctx):
    from lib import fuzz
    fix = fuzz.fixture()
    w = ctx.w
    doc = case['doc']
    src = gdoc.ser_doc(doc)
    if '\x00' in src:
        return
    fmt, ext = case['fmt'], case['ext']
    if ext & (EXT['RANDOM_FOOT'] | EXT['RANDOM_LABELS']) and '[^fnz]' not in src:
        # declared-random anchors are drawn while the document is written; the names of the stored assets are drawn too: a note used twice (and a
        # heading linked twice) with a new picture after each use must still give every picture a name of its own
        src += '\n\n# Zed Heading\n\nnote[^fnz] ![one](pic.png) again[^fnz] ![two](img/pic2.png) see [Zed Heading][] ![three](missing.png) and [Zed Heading][] ![four](img/../pic.png)\n\n[^fnz]: z note\n'
        ctx.cls('reused_note_with_pictures_under_random_anchors')
    directory = fix if case['usedir'] else ''
    fail = lambda sig, msg: Violation(sig, '%s\nfmt=%s dir=%r\nsource=%r' % (msg, fmt, directory, src))
    # (a conversion that draws from the e-mail obfuscation sequence comes first, so that what the package writer does with that sequence
    # does not depend on what the worker happened to convert before this case)
    w.convert('warm up <someone@example.com> and <other@example.org>\n', 'html', ext)
    r = w.convert(src, fmt, ext, api='sd', directory=directory)
    if r.status != 'ok':
        raise fail('result:' + r.status, '')
    data = r.out
    ctx.cls('fmt_' + fmt)
    try:
        z = zipfile.ZipFile(io.BytesIO(data))
        bad = z.testzip()
    except zipfile.BadZipFile as e:
        raise fail('zip:not-an-archive', str(e))
    if bad is not None:
        raise fail('zip:bad-crc', 'member %r fails its CRC' % bad)
    infos = z.infolist()
    names = [i.filename for i in infos]
    if len(set(names)) != len(names):
        raise fail('zip:duplicate-names', repr(names))
    mem = {n: z.read(n) for n in names}
    urls = set(re.findall(r'!\[[^\]]*\]\(([^ )]+)', src)) | set(re.findall(r'^\[r\d*\]: (\S+)', src, re.M)) | set(IMAGES)
    if 'css: style.css' in src:
        urls.add('style.css')
    has_asset = False
    if fmt == 'epub':
        if names[0] != 'mimetype' or mem['mimetype'] != b'application/epub+zip':
            raise fail('epub:mimetype', 'first member %r content %r' % (names[0], mem.get('mimetype')))
        c = mem.get('META-INF/container.xml')
        if c is None or b'full-path="OEBPS/main.opf"' not in c:
            raise fail('epub:container', repr(c))
        ET.fromstring(c)
        opf = mem.get('OEBPS/main.opf')
        if opf is None:
            raise fail('epub:no-package-document', repr(names))
        try:
            root = ET.fromstring(opf)
        except ET.ParseError as e:
            raise fail('epub:opf-not-well-formed', '%s\n%r' % (e, opf[:800]))
        hrefs = [i.get('href') for i in root.iter('{http://www.idpf.org/2007/opf}item')]
        for need in ('nav.xhtml', 'main.xhtml'):
            if need not in hrefs or 'OEBPS/' + need not in mem:
                raise fail('epub:manifest', '%s missing (manifest %r, members %r)' % (need, hrefs, names))
        main = mem['OEBPS/main.xhtml'].decode('utf-8', 'replace')
        plain = strip_toc(w.convert(src, 'html', ext | EXT['COMPLETE']).text)
        a, b, mapping = align(main, plain, 'assets/', urls, fail)
        squeeze = lambda t_: re.sub(r'\n+', '\n', t_).strip('\n')      # omitting the TOC block changes the blank-line padding around it
        if ext & (EXT['RANDOM_FOOT'] | EXT['RANDOM_LABELS']):
            # declared-random anchors differ between two conversions: compared under a mask (the asset table is still compared exactly)
            rmask = lambda t_: re.sub(r'((?:id|href)="(?:main\.xhtml)?#?)\d+(")', r'\1N\2', re.sub(r'((?:fn|fnref|cn|cnref|gn|gnref):)\d+', r'\1N', t_))
            a, b = rmask(a), rmask(b)
            ctx.cls('random_anchors_masked')
        if squeeze(a) != squeeze(b):
            raise fail('epub:main-document-differs', 'main.xhtml != complete HTML\nepub=%r\nhtml=%r' % (a[-900:], b[-900:]))
        for url, uuid in mapping.items():
            p = os.path.join(directory, url) if directory else None
            member = 'OEBPS/assets/' + uuid
            if p and os.path.isfile(p):
                has_asset = True
                if member not in mem or mem[member] != open(p, 'rb').read():
                    raise fail('epub:asset-missing-or-different', '%s -> %s' % (url, member))
    elif fmt == 'odt':
        if names[0] != 'mimetype' or infos[0].compress_type != 0 or mem['mimetype'] != b'application/vnd.oasis.opendocument.text':
            raise fail('odt:mimetype', 'first %r method %r content %r' % (names[0], infos[0].compress_type, mem.get('mimetype')))
        man = mem.get('META-INF/manifest.xml')
        if man is None:
            raise fail('odt:no-manifest', repr(names))
        listed = re.findall(r'manifest:full-path="([^"]*)"', man.decode('utf-8', 'replace'))
        for need in ('content.xml', 'styles.xml', 'meta.xml', 'settings.xml'):
            if need not in mem or need not in listed:
                raise fail('odt:required-member', '%s missing (members %r, manifest %r)' % (need, names, listed))
        for n in names:
            if n.startswith('Pictures/') and n != 'Pictures/' and n not in listed:
                raise fail('odt:picture-not-in-manifest', n)
        content = mem['content.xml'].decode('utf-8', 'replace')
        fodt = w.convert(src, 'fodt', ext, api='sd', directory=directory).text
        body = lambda t: re.search(r'<office:text>.*</office:text>', t, re.S).group(0) if re.search(r'<office:text>.*</office:text>', t, re.S) else None
        bc, bf = body(content), body(fodt)
        if bc is None or bf is None:
            raise fail('odt:no-office-text', '')
        a, b, mapping = align(bc, bf, 'Pictures/', urls, fail)
        if ext & (EXT['RANDOM_FOOT'] | EXT['RANDOM_LABELS']):
            rmask = lambda t_: re.sub(r'((?:text:name|text:ref-name|xlink:href|text:id)="#?)\d+(")', r'\1N\2', re.sub(r'((?:fn|fnref|cn|cnref|gn|gnref):)\d+', r'\1N', t_))
            a, b = rmask(a), rmask(b)
            ctx.cls('random_anchors_masked')
        if a != b:
            raise fail('odt:main-document-differs', 'content.xml body != FODT body\nodt=%r\nfodt=%r' % (a[-700:], b[-700:]))
        for url, uuid in mapping.items():
            p = os.path.join(directory, url) if directory else None
            if p and os.path.isfile(p):
                has_asset = True
                if 'Pictures/' + uuid not in mem or mem['Pictures/' + uuid] != open(p, 'rb').read():
                    raise fail('odt:asset-missing-or-different', '%s -> Pictures/%s' % (url, uuid))
    elif fmt == 'bundlezip':
        try:
            json.loads(mem['info.json'])
        except Exception as e:
            raise fail('bundle:info-json', str(e))
        text = mem.get('text.markdown')
        if text is None:
            raise fail('bundle:no-text', repr(names))
        # text == source with some URL occurrences replaced by assets/<uuid>; the same uuid always stands for the same URL
        t = text.decode('utf-8', 'surrogateescape')
        parts = re.split(r'assets/(%s)' % UU, t)
        rx = ''.join(re.escape(x) if i % 2 == 0 else '(?P<u%d>%s)' % (i, '|'.join(sorted((re.escape(u) for u in urls), key=len, reverse=True))) for i, x in enumerate(parts))
        m = re.fullmatch(rx, src, re.S)
        if not m:
            raise fail('bundle:text-differs', 'text.markdown is not the source with asset paths substituted\ntext=%r' % t[:900])
        mapping = {}
        for i in range(1, len(parts), 2):
            uuid, url = parts[i], m.group('u%d' % i)
            if mapping.setdefault(uuid, url) != url:
                raise fail('assets:not-a-bijection', '%s stands for %r and %r' % (uuid, mapping[uuid], url))
        for uuid, url in mapping.items():
            p = os.path.join(directory, url) if directory else None
            if p and os.path.isfile(p):
                has_asset = True
                if 'assets/' + uuid not in mem or mem['assets/' + uuid] != open(p, 'rb').read():
                    raise fail('bundle:asset-missing-or-different', '%s -> assets/%s' % (url, uuid))
    else:
        m = mem.get('mapdata.xml')
        if m is None:
            raise fail('itmz:no-mapdata', repr(names))
        plain = w.convert(src, 'itmz', ext, api='s').out
        if pkg.mask(m).rstrip(b'\n') != pkg.mask(plain).rstrip(b'\n'):
            raise fail('itmz:mapdata-differs', 'mapdata.xml != FORMAT_ITMZ body\nzip=%r\nbody=%r' % (pkg.mask(m)[-600:], pkg.mask(plain)[-600:]))
    # CLI leg
    if case['cli'] == 0:
        cli = vbuild.cli('asan')
        d = os.path.join(ctx.scratch, 'cli')
        os.makedirs(d, exist_ok=True)
        f = os.path.join(d, 'in.txt')
        open(f, 'wb').write(src.encode('utf-8', 'surrogateescape'))
        o = os.path.join(d, 'out.bin')
        if os.path.exists(o):
            os.unlink(o)
        p = subprocess.run([cli, '-t', fmt, '-o', o, f] + ([] if ext & EXT['SMART'] else ['--nosmart']) + (['--nolabels'] if ext & EXT['NO_LABELS'] else []),
                           stdout=subprocess.PIPE, stderr=subprocess.PIPE, env=dict(os.environ, ASAN_OPTIONS='detect_leaks=0'))
        if p.returncode != 0 or not os.path.exists(o):
            raise fail('cli:no-output', 'rc=%d %r' % (p.returncode, p.stderr[-400:]))
        try:
            zc = zipfile.ZipFile(o)
            if zc.testzip() is not None:
                raise fail('cli:bad-crc', zc.testzip())
        except zipfile.BadZipFile as e:
            raise fail('cli:not-an-archive', str(e))
        ref = w.convert(src, fmt, ext, api='sd', directory=d).out
        if [n for n, _ in pkg.masked_view(open(o, 'rb').read())] != [n for n, _ in pkg.masked_view(ref)]:
            raise fail('cli:members-differ', '')
        # a wildcard transclusion picks the flavour of the plain format the package embeds (epub: html, odt: fodt)
        flav = {'epub': ('.html', 'OEBPS/main.xhtml'), 'odt': ('.fodt', 'content.xml')}.get(fmt)
        if flav and '{{' not in src:
            for e_ in ('.html', '.fodt', '.tex', '.txt'):
                open(os.path.join(d, 'part' + e_), 'w').write('flavour%sword\n' % e_[1:])
            f2, o2 = os.path.join(d, 'in2.txt'), os.path.join(d, 'out2.bin')
            open(f2, 'wb').write(src.encode('utf-8', 'surrogateescape') + b'\n\n{{part.*}}\n')
            p2 = subprocess.run([cli, '-t', fmt, '-o', o2, f2], stdout=subprocess.PIPE, stderr=subprocess.PIPE, env=dict(os.environ, ASAN_OPTIONS='detect_leaks=0'))
            try:
                body = zipfile.ZipFile(o2).read(flav[1])
            except Exception as e:
                raise fail('cli:no-output', 'wildcard leg rc=%d %r %r' % (p2.returncode, e, p2.stderr[-300:]))
            want = ('flavour%sword' % flav[0][1:]).encode()
            if want not in body:
                raise fail('cli:wildcard-flavour', '%s does not contain the text of part%s (found: %r)' % (flav[1], flav[0], re.findall(rb'flavour\w+word', body)))
            os.unlink(o2)
            ctx.cls('cli_wildcard_flavour_checked')
        ctx.cls('cli_leg_checked')
    heads = bool(re.search(r'^#|^[=-]{3,}$', src, re.M))
    if has_asset:
        ctx.cls('with_stored_asset')
    if heads and has_asset:
        ctx.nontrivial(src + fmt + str(case['usedir']))
        ctx.sample({'fmt': fmt, 'dir': bool(directory), 'source': src[:400]})


def prebuild():
    vbuild.cli('asan')


def run(tier):
    return hyp.run(__import__('props.c09', fromlist=['x']), tier, quick_s=30, thorough_s=600, chunk=150)


def replay(path):
    return hyp.replay(__import__('props.c09', fromlist=['x']), path)
