#!/usr/bin/env python3
"""tools/seed_store.py <name> <outdir> <m#> <property> <needs> <caught-by> <initially> -- files a verified seeded change under /verif/seeded/<name>/"""
import json, os, shutil, subprocess, sys
name, outdir, m, prop, needs, caught, initially = sys.argv[1:8]
d = os.path.join('/verif/seeded', name)
os.makedirs(d, exist_ok=True)
shutil.copy(os.path.join(outdir, m + '.diff'), os.path.join(d, 'patch.diff'))
shutil.copy(os.path.join(outdir, m + '-demo.sh'), os.path.join(d, 'demo.sh'))
if os.path.exists(os.path.join(outdir, m + '.md')):
    shutil.copy(os.path.join(outdir, m + '.md'), os.path.join(d, 'notes.md'))
head = subprocess.run(['git', '-C', '/repo', 'log', '--format=%h', '-1'], stdout=subprocess.PIPE).stdout.decode().strip()
meta = dict(property=prop, breaks=open(os.path.join(d, 'notes.md')).read().split('\n')[0][:300] if os.path.exists(os.path.join(d, 'notes.md')) else '',
            needs_to_manifest=needs,
            verified=dict(repo_head=head, how='tools/mutant.sh verify: applied in a scratch worktree of /repo HEAD, project built with cmake, 345 sub-tests OK / 0 FAILED with the change, demo.sh exits non-zero on the changed tree and 0 on the unchanged tree',
                          checks_run=os.environ.get('SEED_CHECKS_RUN', 'tools/mutant.sh checkw: git worktree add <scratch> HEAD; git -C <scratch> apply patch.diff; VERIF_REPO=<scratch> ./check <id> (quick tier); worktree removed')),
            caught_by=caught, before_strengthening=initially)
json.dump(meta, open(os.path.join(d, 'meta.json'), 'w'), indent=1)
print('stored', d)
