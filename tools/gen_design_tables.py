#!/usr/bin/env python3
"""Rewrites the generated tables of DESIGN.md (between <!-- BEGIN:x --> / <!-- END:x --> markers) from known_findings.json,
seeded/*/meta.json, MANIFEST.json and evidence/*.json, so that the document cannot drift from the committed data."""
import glob, json, os, re, subprocess
V = os.path.dirname(os.path.dirname(os.path.abspath(__file__)))


def findings():
    k = json.load(open(os.path.join(V, 'known_findings.json')))
    fixed = [x for x in k if x.get('status') == 'fixed' or x.get('what', '').startswith('fixed:')]
    known = [x for x in k if x.get('status') == 'known']
    out = ['**Known findings (genuine defects recorded, not repaired) — %d**\n' % len(known)]
    for x in known:
        out.append('- `%s` / `%s` — %s  (seed: `%s`)' % (x['property'], x['signature'], x['what'], x.get('replay', '-')))
    out.append('\n**Repaired defects ("fix:" commits in /repo) — %d entries**\n' % len(fixed))
    out.append('| property | commit | what failed |')
    out.append('|---|---|---|')
    for x in fixed:
        what = re.sub(r'^fixed: property=\S+ \S+ ', '', x.get('what', ''))
        out.append('| %s | %s | %s |' % (x.get('property', re.search(r'property=(\S+)', x.get('what', '')).group(1) if 'property=' in x.get('what', '') else '?'),
                                       x.get('commit', '?'), what.replace('|', '\\|')))
    return '\n'.join(out)


def seeded():
    out = ['| seeded change | property | needs, in order to manifest | caught by | before strengthening |', '|---|---|---|---|---|']
    for d in sorted(glob.glob(os.path.join(V, 'seeded', '*'))):
        mp = os.path.join(d, 'meta.json')
        if not os.path.exists(mp):
            continue
        m = json.load(open(mp))
        out.append('| %s | %s | %s | %s | %s |' % (os.path.basename(d), m['property'], m['needs_to_manifest'].replace('|', '\\|'), m['caught_by'].replace('|', '\\|'), m['before_strengthening'].replace('|', '\\|')))
    return '\n'.join(out)


def status():
    man = json.load(open(os.path.join(V, 'MANIFEST.json')))
    out = ['| property | engine / technique | quick run: evaluations | distinct non-trivial | wall s |', '|---|---|---|---|---|']
    for c in man['checks']:
        pid = c['property_id']
        ev = os.path.join(V, 'evidence', pid + '.json')
        e = json.load(open(ev)) if os.path.exists(ev) else None
        cov = e['coverage'] if e else {}
        out.append('| %s | %s | %s | %s | %s |' % (pid, c.get('technique', '')[:110].replace('|', '\\|'), cov.get('evaluations', '-'), cov.get('distinct_nontrivial', '-'), e.get('wall_s', '-') if e else '-'))
    return '\n'.join(out)


def main():
    p = os.path.join(V, 'DESIGN.md')
    s = open(p).read()
    for name, fn in (('FINDINGS', findings), ('SEEDED', seeded), ('STATUS', status)):
        a, b = '<!-- BEGIN:%s -->' % name, '<!-- END:%s -->' % name
        if a in s and b in s:
            i, j = s.index(a) + len(a), s.index(b)
            s = s[:i] + '\n' + fn() + '\n' + s[j:]
    open(p, 'w').write(s)
    print('DESIGN.md tables regenerated')


if __name__ == '__main__':
    main()
