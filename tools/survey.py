#!/usr/bin/env python3-vt
"""tools/survey.py <prop> [n]: run n generated cases of a Hypothesis-based check WITHOUT stopping at failures; prints failure classes."""
import sys, importlib, collections, re
sys.path.insert(0, '/verif')
from hypothesis import given, settings, HealthCheck, seed, Phase
from lib import hyp
mod = importlib.import_module('props.' + sys.argv[1].lower())
n = int(sys.argv[2]) if len(sys.argv) > 2 else 500
ctx = hyp.Ctx(getattr(mod, 'VARIANT', 'asan'))
import os, tempfile
ctx.scratch = tempfile.mkdtemp()
if hasattr(mod, 'shard_init'): mod.shard_init(ctx, 0)
fails = collections.defaultdict(list); cnt = [0]
@seed(int(sys.argv[3]) if len(sys.argv) > 3 else 7)
@settings(max_examples=n, database=None, deadline=None, suppress_health_check=list(HealthCheck), phases=(Phase.generate,))
@given(mod.strategy('quick'))
def t(case):
    cnt[0] += 1
    try: mod.check(case, ctx)
    except hyp.Violation as v:
        fails[v.signature].append(v.detail)
t()
print('cases', cnt[0], 'failing', sum(len(v) for v in fails.values()))
for k, v in sorted(fails.items(), key=lambda x: -len(x[1])):
    print('=====', len(v), k)
    for d in sorted(v, key=len)[:int(sys.argv[4]) if len(sys.argv) > 4 else 2]: print(d[:1500]); print('--')
