#!/usr/bin/env python3
"""tools/reduce.py <target-binary> <FZ_MODE> <input> <signature-substring>: greedy line/char reducer for fuzz inputs (keeps the trailer)."""
import subprocess, sys, os, tempfile
b, mode, path, want = sys.argv[1:5]
tr = int(sys.argv[5]) if len(sys.argv) > 5 else 11
data = open(path, 'rb').read(); doc, trailer = data[:-tr], data[-tr:]
env = dict(os.environ, FZ_MODE=mode, FZ_FIXTURE='/verif/.cache/fixture', ASAN_OPTIONS='detect_leaks=0:exitcode=77', UBSAN_OPTIONS='print_stacktrace=1:exitcode=77')
def bad(d):
    with tempfile.NamedTemporaryFile(delete=False) as f: f.write(d + trailer); n = f.name
    try:
        p = subprocess.run([b, '-detect_leaks=0', n], env=env, stdout=subprocess.PIPE, stderr=subprocess.PIPE, timeout=20)
    except subprocess.TimeoutExpired:
        os.replace(n, '/tmp/hang-candidate'); return False
    os.unlink(n)
    return p.returncode != 0 and want.encode() in p.stderr
assert bad(doc), 'does not reproduce'
for sep in (b'\n', b' ', None):
    changed = True
    while changed:
        changed = False
        parts = doc.split(sep) if sep else [doc[i:i+1] for i in range(len(doc))]
        i = 0
        while i < len(parts):
            cand = parts[:i] + parts[i+1:]
            d = (sep or b'').join(cand)
            if len(cand) and bad(d): parts = cand; doc = d; changed = True
            else: i += 1
sys.stdout.buffer.write(doc); open(path + '.min', 'wb').write(doc + trailer)
