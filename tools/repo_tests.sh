#!/bin/sh
# Build /repo the way the project does (guard OFF) and run its own suite; prints the number of passing sub-tests.
# Usage: tools/repo_tests.sh [repo-dir]   (exit 0 iff 345 sub-tests are OK and none FAILED)
R="${1:-/repo}"
B="$R/_build"
[ -f "$B/build.ninja" ] || cmake -G Ninja -B "$B" -S "$R" >/dev/null || exit 2
cmake --build "$B" >/dev/null 2>&1 || { echo "build failed"; exit 2; }
out=$(ctest --test-dir "$B" -j8 --timeout 900 -V 2>&1)
ok=$(printf '%s\n' "$out" | grep -E '^[0-9]+: .*\.\.\. OK' | wc -l)
bad=$(printf '%s\n' "$out" | grep -E '^[0-9]+: .*\.\.\. FAILED' | wc -l)
echo "sub-tests OK=$ok FAILED=$bad"
printf '%s\n' "$out" | grep -E '^[0-9]+: .*\.\.\. FAILED' | head -20
[ "$ok" -ge 345 ] && [ "$bad" -eq 0 ]
