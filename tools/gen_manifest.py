#!/usr/bin/env python3
"""Regenerates MANIFEST.json from the table below (so it is valid at every commit)."""
import json, os, subprocess
V = os.path.dirname(os.path.dirname(os.path.abspath(__file__)))
ALL = ['C%02d' % i for i in range(1, 21)]

# id -> (engine, technique, level text, level note, design ref)
CLAIMED = {
 'C03': ('E3-hypothesis', 'model-based property testing: generated abstract documents serialised in varying concrete spellings, rendered HTML compared byte for byte with a reference renderer written from the documentation and stored expectations; plus a metamorphic compositionality relation (whole render == concatenation of per-block renders)',
         'Random document trees over the constructs the statement names (paragraphs, ATX/Setext headings with ids, emphasis/strong, code spans, fenced/indented code, quotes, tight/loose lists with continuation paragraphs, rules, hard breaks, inline and automatic links, images/figures, escapes, entities, bare & < >, smart punctuation, tables with alignment, footnotes, definition lists, math, super/subscript) in MMD and compatibility mode with smart typography on/off must render exactly as the reference model pbt/htmlmodel.py says; documents of independent blocks must render to the concatenation of their blocks. Held on everything generated; one known finding (angle pair blocks emphasis) is reported as such.',
         'Trusted: Hypothesis; the reference renderer (200 lines, written from the syntax guide and tests/MMD6Tests/*.html, never from running the code). Reference-style links, raw HTML, citations/glossaries and deeper list nesting are not modelled and not generated.',
         'DESIGN.md section 5, C03'),
 'C04': ('E3-hypothesis', 'property-based testing with sentinel documents: differential over six output formats against the generated source, with validity predicates (accepted escape spellings, verbatim round-trip, XML parse / LaTeX nesting scanner)',
         'Generated documents whose every word is a unique sentinel and whose reserved characters and verbatim payloads are bracketed by sentinels are rendered to HTML, LaTeX, Beamer, Memoir, FODT and OPML; after visible-text extraction the body-word sequence must equal the source sequence (notes as their own subsequence, attribute text never duplicated), every reserved character must appear in an accepted escaped spelling for the target, verbatim payloads must round-trip, and markup must nest. Held on everything generated; one known finding (\\% in LaTeX verbatim) is reported as such.',
         'Trusted: Hypothesis, expat, the accepted-spelling tables and the LaTeX nesting scanner in props/c04.py. Only one of bare < / bare > per document (angle-pair ambiguity); whether LaTeX would typeset the result is not judged.',
         'DESIGN.md section 5, C04'),
 'C08': ('E3-hypothesis', 'property-based testing with a real XML parser (expat) as well-formedness oracle and a format-vocabulary check as containment oracle, over hostile generated documents',
         'Generated documents place hostile payloads (& < > quotes, attribute break-outs, comment/CDATA closers, entities, CriticMarkup and math delimiters, tabs, multi-byte text) in every text and attribute slot; OPML, FODT, ITMZ map data and every XML/XHTML member of ODT and EPUB packages must parse with expat, and every element/attribute name must belong to the format vocabulary (text that broke out would create foreign names). Held on everything generated; two known findings pinned by stored expectations are reported as such.',
         'Trusted: expat, Python zipfile. Raw HTML and user-typed named entities are not generated (raw passthrough is outside the statement).',
         'DESIGN.md section 5, C08'),
 'C09': ('E3-hypothesis', 'property-based testing with an independent archive reader (Python zipfile) and differential comparison of package members against the plain formats',
         'Generated documents with hostile metadata, headings, TOC and images (existing, missing, remote, titled, reference-defined) are packaged as EPUB, ODT, TextBundle and ITMZ with and without an asset directory; the archive must open, pass every CRC, have unique names and the required members in the required positions, its main document must equal the corresponding plain rendering modulo asset paths / TOC, and the asset table must be a bijection whose existing files are stored byte-identically. Held on everything generated.',
         'Trusted: Python zipfile/ElementTree/json. Assets whose file is missing or remote get a path but no member (accepted).',
         'DESIGN.md section 5, C09'),
 'C14': ('E3-hypothesis', 'property-based testing: byte-offset equation between generated source and exported outline notes (XML parser), and export/import round-trip relation on the HTML rendering',
         'Documents generated from heading trees with hostile section bodies are exported to OPML; the outline must parse, list preamble/headings/metadata in order, and every note must equal the exact source bytes between two headings (offsets known to the generator). For properly nested documents the complete HTML of the re-imported text must equal the original rendering and be a fixed point. Held on everything generated; one known finding (final-newline dependence) is reported as such.',
         'Trusted: Hypothesis, Python ElementTree (attribute-value normalisation is part of XML and therefore of the oracle).',
         'DESIGN.md section 5, C14'),
 'C10': ('E3-hypothesis', 'property-based testing with a validity oracle over the parsed HTML (XML parser): href/id resolution, list membership, numbering by first use, back-links, TOC and cross-reference targets',
         'Generated documents with notes, citations, glossary terms (defined, inline, re-used, unused, not cited), headings of every style, manual labels, duplicate and punctuated titles, captioned tables, TOC and title/label cross-references are rendered under default / --random / --unique / --nolabels / base-header-level and the anchor graph of the output is checked for resolution, right targets, numbering and order. Held on everything generated; one known finding is reported as such.',
         'Trusted: Hypothesis, Python ElementTree. Cross-references only to uniquely titled headings; rand() state is pinned for the random-anchor modes.',
         'DESIGN.md section 5, C10'),
 'C07': ('E4-enumerators', 'geometric ladders: nesting depth ladders through the uninstrumented CLI (crash = violation) and k-fold repetition / pattern-length doubling ladders with cost measured in executed SanitizerCoverage edges',
         'About 30 nesting constructs in closed/unclosed/unopened form are driven up a ladder to 10^5 (quick) or 10^6 (thorough) openers through the writers in both modes with the default 8 MiB stack; repetition ladders d^k over corpus files and line-kind representatives and the published pathological patterns inside one paragraph are measured in executed edges and must at most double per doubling (2.15 threshold) with peak stack below 6 MiB. Rungs cut by the time budget are reported as inconclusive.',
         'Trusted: SanitizerCoverage edge counts as cost measure; deep balanced nesting is only required not to crash (it is quadratic in time on the unchanged tree).',
         'DESIGN.md section 5, C07'),
 'C17': ('E4-enumerators', 'randomised multi-threaded conversion streams under ThreadSanitizer (happens-before race detection) with a serial-run differential',
         'Many runs of 2/4/8 threads, each converting its own seeded stream over the statefulness pool and the corpus in all formats, in a DISABLE_OBJECT_POOL + TSan build; any TSan report is a violation, and every output must equal the single-threaded output of the same item. Schedules are sampled, not enumerated: weakest of the checks by nature of the technique.',
         'Trusted: ThreadSanitizer, glibc. Races on accesses that the sampled streams never execute are invisible.',
         'DESIGN.md section 5, C17'),
 'C18': ('E2-rapidcheck', 'model-based stateful property testing (rapidcheck state machine over init/drain/free/convert/parse-and-hold/inspect) with ASan poisoning as the memory-release observation',
         'Properly bracketed call histories with nested inits, re-initialisation after free and documents around and beyond the slab size are executed; after every command conversion results must equal pristine-pool references, held trees must stay addressable and unchanged until the outermost drain and be poisoned after it, with the allocator confirming the released amount. Held on everything generated.',
         'Trusted: rapidcheck, ASan poisoning semantics, __sanitizer_get_current_allocated_bytes.',
         'DESIGN.md section 5, C18'),
 'C02': ('E4-enumerators', 'bounded-exhaustive enumeration of line-kind sequences (39 kinds, length <= L), every ordered pair repeated into a long document, plus random longer sequences, and coverage-guided fuzzing, both under an escape-detecting oracle (intercepted exit, fd-2 diagnostics, empty tree)',
         'Every sequence of up to L line kinds (quick L=3: 33,824 documents; thorough L=4) and random sequences of length 5..12 go through all 7 writers in MMD and compatibility mode; a libFuzzer target covers arbitrary documents. A conversion that calls exit(), prints an unknown-token / parse-failed diagnostic, yields an empty tree or loses a leading plain line is a violation. The enumerated core is exhaustive for its bound; the rest is exploration.',
         'Trusted: --wrap=exit interception, fd-2 capture, one representative spelling per line kind.',
         'DESIGN.md section 5, C02'),
 'C15': ('E1-libfuzzer', 'coverage-guided fuzzing with an in-target tree-invariant walker (I1-I7) after parse, sub-string parse and each export; pool on and off',
         'Inputs mutated from the corpus are parsed (whole string or in-range sub-string) and exported through any or all of the 7 writers; after each step an iterative walker checks root shape/span, spans inside the source, sibling links, sibling order, mate symmetry, finiteness and type range. Three enum-range relations are evaluated once. Held on everything executed.',
         'Trusted: ASan/UBSan/libFuzzer; containment of children in parents and tail pointers are deliberately not asserted.',
         'DESIGN.md section 5, C15'),
 'C16': ('E1-libfuzzer', 'coverage-guided fuzzing over a total bytes->valid-UTF-8 mapping with an independent strict UTF-8 validator as oracle',
         'Every fuzz input denotes a valid UTF-8 document rich in code points whose bytes the lexer treats specially; HTML, LaTeX, Beamer, Memoir, FODT (full and body) and OPML outputs and the text-returning side APIs must validate under a strict decoder written for the harness. Held on everything executed.',
         'Trusted: the harness validator (rejects overlongs, surrogates, >U+10FFFF, truncation); the target first validates its own input.',
         'DESIGN.md section 5, C16'),
 'C05': ('E3-hypothesis', 'stateful property testing: Hypothesis-generated conversion histories in one process, differential against the same call made first in a fresh process',
         'Histories of up to 12 conversions (12 formats, 10 extension sets, 7 languages, string/DString/to_data/reused-engine shapes, in-place source replacement, random-anchor steps as pure history, pool bracket per step or per history) run in one sanitised worker that is restarted for every history; every compared step must equal the bytes a fresh process gives first, and the caller\'s buffer must be unchanged. Held on everything generated.',
         'Trusted: Hypothesis, the plain build as reference executor, lib/pkg.py mask for declared-random package fields.',
         'DESIGN.md section 5, C05'),
 'C06': ('E3-hypothesis', 'differential testing across API variants and the CLI over Hypothesis-generated and corpus sources',
         'For every generated (source, format, extensions, language) the 9 library variants and (sampled) the CLI on stdout / -o / -b are executed and compared byte for byte (archives member by member under a mask); metadata queries and updates are compared across the three families; NULL results, missing or empty output files are violations. Held on everything generated.',
         'Trusted: Hypothesis, Python zipfile, the mask of lib/pkg.py. CLI legs use sources for which main.c\'s pre-processing is the identity.',
         'DESIGN.md section 5, C06'),
 'C20': ('E3-hypothesis', 'metamorphic testing (snippet/complete/default relations, metadata insertion/permutation/removal) over generated and corpus bodies',
         'Relations R1-R4 (snippet verbatim inside complete with body-independent wrapper; default is exactly one of the two, decided by non-control keys; other keys never change the snippet; control keys change only what they document) are evaluated for HTML, LaTeX, Beamer, Memoir through the library and, sampled, the CLI -f/-s. Held on everything generated.',
         'Trusted: Hypothesis; the list of rendering-control keys is taken from the statement. bibtex / mmd header / mmd footer / transclude base are never generated.',
         'DESIGN.md section 5, C20'),
 'C13': ('E3-hypothesis', 'model-based property testing (Hypothesis include-graph generator materialised as real directory trees vs. Python reference expander), timeout as non-termination signal',
         'Generated include graphs (trees, DAGs with sharing, self loops, cycles, missing targets, nested directories, absolute/relative/.. paths, transclude-base overrides, wildcards, {{TOC}}, over-long and unterminated markers) are expanded by the library and, sampled, by the CLI; acyclic graphs must equal an independent reference expansion byte for byte and give the right manifest, every graph must terminate with bounded output. Held on everything generated.',
         'Trusted: Hypothesis, the reference expander in props/c13.py, the file system. A 20 s (+60 s confirmation) timeout is the non-termination signal.',
         'DESIGN.md section 5, C13'),
 'C11': ('E3-hypothesis', 'model-based property testing (Hypothesis metadata-block generator vs. Python reference model norm_key/norm_val), update sequences through four API families',
         'Generated metadata blocks (key grammar, hostile values, continuation lines, YAML fences, LF/CRLF, three terminations) are queried through the string, DString, one-shot engine and a long-lived engine; has_metadata/end, key listing, value lookup under equivalent key spellings, update read-back, untouched other keys/body and the complete-HTML header are compared with an independent model. Held on everything generated.',
         'Trusted: Hypothesis, the Python model in props/c11.py. Documented precedences (URL lines, list items, empty first value, hard-break escape) are excluded by construction.',
         'DESIGN.md section 5, C11'),
 'C12': ('E3-hypothesis', 'model-based property testing (Hypothesis edit-script generator vs. Python string model), idempotence relation, differential CLI -a/-r leg',
         'Generated CriticMarkup edit scripts (all five mark types, nesting, escapes, paragraph-spanning marks, unmatched markers) are accepted/rejected through the library on the whole string and on sub-ranges and compared byte for byte with an independent model; sampled cases also go through the real CLI. Held on everything generated.',
         'Trusted: Hypothesis, the Python model in props/c12.py, the worker protocol. Text never contains bare braces; CLI leg only without unmatched markers.',
         'DESIGN.md section 5, C12'),
 'C01': ('E1-libfuzzer', 'coverage-guided fuzzing (libFuzzer fork mode, 6 entry-point families x pool on/off) with ASan+UBSan as the oracle, plus structured regression inputs',
         'Every text-accepting entry point (convert in all 13 formats / 17 extension bits / 7 languages / 7 API shapes, metadata, CriticMarkup, OPML and ITMZ import, transclusion) is fuzzed from the corpus in builds with and without the token pool; any sanitizer report, signal or abort is a violation. Held on everything executed; absence is not established.',
         'Trusted: clang ASan/UBSan/libFuzzer. miniz.c is built without UBSan. Inputs are cut at the first NUL for C-string APIs. Timeouts/OOM artifacts are not verdicts.',
         'DESIGN.md section 5, C01'),
 'C19': ('E2-rapidcheck', 'model-based stateful property testing (rapidcheck state machine vs. std::string model) under ASan+UBSan',
         'Random command sequences over all 13 DString operations with boundary-value arguments are executed against the real '
         'DString and an ideal string model; every field invariant is compared after every command. Held on everything generated; absence of defects is not established.',
         'Trusted: rapidcheck, libstdc++ std::string, ASan/UBSan. Payloads are NUL-free C strings; replace() with an empty pattern is out of contract.',
         'DESIGN.md section 5, C19'),
}
PENDING_REASON = 'check not built yet in this round (design in DESIGN.md section 5); not claimed until its machinery exists and passes on the unchanged tree'

def main():
    checks = []
    for pid in ALL:
        if pid not in CLAIMED: continue
        eng, tech, text, note, ref = CLAIMED[pid]
        checks.append(dict(property_id=pid, quick_cmd='./check %s --tier quick' % pid, thorough_cmd='./check %s --tier thorough' % pid,
                           evidence_file='evidence/%s.json' % pid, replay_cmd_template='./check %s --replay {path}' % pid, engine=eng,
                           level_claimed=dict(category='exploration', text=text, design_ref=ref), level_note=note, technique=tech))
    try:
        hooks = [l.split()[0] for l in subprocess.check_output(['git', '-C', '/repo', 'log', '--format=%H %s']).decode().splitlines() if ' verif-hook:' in l]
    except Exception:
        hooks = []
    m = dict(version=1, setup_cmd='./check --setup',
             hooks=dict(guard='MMD6_VERIF', enable='every verification build passes -DMMD6_VERIF (lib/vbuild.py); no source hook is needed so far',
                        baseline_off_cmd='/verif/tools/repo_tests.sh /repo', source_commits=hooks, add_only=True),
             engines=[dict(name='E1-libfuzzer', path='harness/', serves_properties=[p for p in CLAIMED if CLAIMED[p][0].startswith('E1')], kind_free_text='libFuzzer targets with the semantic oracle inside the target, ASan+UBSan'),
                      dict(name='E2-rapidcheck', path='harness/', serves_properties=[p for p in CLAIMED if CLAIMED[p][0].startswith('E2')], kind_free_text='rapidcheck state machines against reference models'),
                      dict(name='E3-hypothesis', path='pbt/', serves_properties=[p for p in CLAIMED if CLAIMED[p][0].startswith('E3')], kind_free_text='Hypothesis strategies driving a persistent ASan worker process; Python reference models / relations'),
                      dict(name='E4-enumerators', path='harness/', serves_properties=[p for p in CLAIMED if CLAIMED[p][0].startswith('E4')], kind_free_text='bounded-exhaustive enumerators and geometric ladders')],
             checks=checks,
             notes='All checks rebuild from /repo working tree into /verif/.cache keyed by source hash. VERIF_SEED, VERIF_TIER, VERIF_BUDGET_SCALE honoured.',
             not_applicable=[dict(property_id=p, reason=PENDING_REASON) for p in ALL if p not in CLAIMED])
    json.dump(m, open(os.path.join(V, 'MANIFEST.json'), 'w'), indent=1)
    print('MANIFEST.json: %d checks, %d not_applicable' % (len(checks), len(m['not_applicable'])))

if __name__ == '__main__':
    main()
