#!/bin/sh
# tools/fzrun.sh <target> <variant> <mode> <file>  -- run one input through a fuzz target and show the report
t=$1; v=$2; m=$3; f=$4
b=$(ls -t /verif/.cache/*/$v/bin/$t-* | grep -v lock | head -1)
FZ_MODE=$m FZ_FIXTURE=/verif/.cache/fixture ASAN_OPTIONS=detect_leaks=0:exitcode=77:symbolize=1 UBSAN_OPTIONS=print_stacktrace=1:exitcode=77 $b -detect_leaks=0 "$f" 2>&1 | grep -v "^INFO\|^Running\|^Executed\|^\*\*\*" 
