#!/bin/bash
# tools/mutant.sh verify <diff> <demo.sh>        -> checks in scratch worktrees: applies, builds, 345 tests pass, demo fails on mutant / passes on clean
# tools/mutant.sh checkw <diff> <Cxx> [Cyy...]   -> the same in a scratch worktree (VERIF_REPO), leaving /repo alone
# tools/mutant.sh check  <diff> <Cxx> [Cyy...]   -> applies the diff to /repo, runs the quick checks, prints VIOLATION lines, restores /repo
set -u
mode=$1; diff=$(readlink -f "$2"); shift 2
case $mode in
verify)
  demo=$(readlink -f "$1")
  rm -rf /tmp/mv-$$ /tmp/mv0-$$; git -C /repo worktree prune
  git -C /repo worktree add --detach /tmp/mv-$$ HEAD >/dev/null 2>&1 || exit 2
  git -C /repo worktree add --detach /tmp/mv0-$$ HEAD >/dev/null 2>&1 || exit 2
  if ! git -C /tmp/mv-$$ apply "$diff" 2>/tmp/mv-$$.err; then
     git -C /tmp/mv-$$ apply -3 "$diff" 2>>/tmp/mv-$$.err || { echo "APPLY FAILED"; cat /tmp/mv-$$.err; git -C /repo worktree remove --force /tmp/mv-$$; git -C /repo worktree remove --force /tmp/mv0-$$; exit 2; }
  fi
  echo "applied: $(git -C /tmp/mv-$$ diff --stat | tail -1)"
  /verif/tools/repo_tests.sh /tmp/mv-$$ 2>&1 | grep -E "sub-tests|FAILED|build failed"
  rm -rf /tmp/mv-$$/_build
  ( cd /tmp && timeout 1800 bash "$demo" /tmp/mv-$$ >/tmp/mv-$$.demo.out 2>&1 ); echo "demo on mutant: exit $? (want non-zero)"; tail -3 /tmp/mv-$$.demo.out | cut -c1-200
  ( cd /tmp && timeout 1800 bash "$demo" /tmp/mv0-$$ >/tmp/mv0-$$.demo.out 2>&1 ); echo "demo on clean:  exit $? (want 0)"; tail -2 /tmp/mv0-$$.demo.out | cut -c1-200
  git -C /repo worktree remove --force /tmp/mv-$$; git -C /repo worktree remove --force /tmp/mv0-$$; git -C /repo worktree prune
  ;;
check)
  [ -z "$(git -C /repo status --porcelain)" ] || { echo "/repo not clean"; exit 2; }
  git -C /repo apply "$diff" 2>/dev/null || git -C /repo apply -3 "$diff" || { echo "APPLY FAILED"; git -C /repo checkout -- .; exit 2; }
  git -C /repo reset -q 2>/dev/null
  for c in "$@"; do
    t0=$(date +%s)
    out=$(cd /verif && VERIF_EVIDENCE_DIR=/tmp/evid-mut ./check $c 2>&1); rc=$?
    echo "== $c exit=$rc $(( $(date +%s) - t0 ))s: $(printf '%s\n' "$out" | grep -c '^VIOLATION') violation line(s)"
    printf '%s\n' "$out" | grep '^VIOLATION' | head -3 | cut -c1-220
  done
  git -C /repo checkout -- . ; git -C /repo status --porcelain
  ;;
checkw)
  # same as check, but the change is applied in a scratch worktree and the checks are pointed at it with VERIF_REPO (used while /repo is busy)
  w=/tmp/mw-$$; git -C /repo worktree add --detach $w HEAD >/dev/null 2>&1 || exit 2
  git -C $w apply "$diff" 2>/dev/null || git -C $w apply -3 "$diff" || { echo "APPLY FAILED"; git -C /repo worktree remove --force $w; exit 2; }
  for c in "$@"; do
    t0=$(date +%s)
    out=$(cd /verif && VERIF_REPO=$w VERIF_EVIDENCE_DIR=/tmp/evid-mut ./check $c 2>&1); rc=$?
    echo "== $c exit=$rc $(( $(date +%s) - t0 ))s: $(printf '%s\n' "$out" | grep -c '^VIOLATION') violation line(s)"
    printf '%s\n' "$out" | grep '^VIOLATION' | head -3 | cut -c1-220
  done
  git -C /repo worktree remove --force $w; git -C /repo worktree prune
  ;;
esac
