#!/bin/sh
# prints the cache directory of the current /repo tree (building variant $1 if given)
cd /verif && python3 -c "
import sys; sys.path.insert(0,'/verif')
from lib import vbuild
print(vbuild.lib(sys.argv[1]) if len(sys.argv)>1 else vbuild.key_dir())" "$@"
