// C02 fuzz leg: arbitrary documents through the 7 writers x {MMD, compatibility} (+ a few optional extension bits) under the
// C02 oracle (no exit, no unknown-token / parse-failed escape, no empty tree).
#include <fuzzer/FuzzedDataProvider.h>
#include "c02_common.h"

extern "C" int LLVMFuzzerTestOneInput(const uint8_t * data, size_t size) {
	cap_init();
	fz_reset_globals();
	FuzzedDataProvider fdp(data, size);
	int fi = fdp.ConsumeIntegralInRange<int>(0, 6);
	int mode = fdp.ConsumeIntegralInRange<int>(0, 1);
	uint8_t extra = fdp.ConsumeIntegral<uint8_t>();
	std::string doc = fz_cstr(fdp.ConsumeRemainingBytesAsString());
	unsigned long ext = C02_MODES[mode];
	if (extra & 1) ext |= EXT_COMPLETE;
	if (extra & 2) ext |= EXT_PROCESS_HTML;
	if (extra & 4) ext ^= EXT_SMART;
	if (extra & 8) ext |= EXT_CRITIC_ACCEPT | EXT_CRITIC;
	if (extra & 16) ext |= EXT_CRITIC_REJECT | EXT_CRITIC;
	if (extra & 32) ext |= EXT_NOTES;
	C02Result r = c02_convert(doc, C02_FMTS[fi], ext);
	if (getenv("FZ_DUMP")) dprintf(fz_real_err, "DUMP fmt=%s ext=0x%lx\n<<<%s>>>\n", C02_FMT_NAMES[fi], ext, doc.c_str());
	if (!r.failure.empty()) fz_oracle_fail("C02", r.failure + ":" + C02_FMT_NAMES[fi] + ":" + (mode ? "compat" : "mmd"), r.detail + "\n<<<" + doc + ">>>");
	return 0;
}
