// Shared pieces of the libFuzzer targets and the worker: exit() interception, fd-2 capture,
// global-state reset, oracle failure reporting.
#pragma once
#include <csetjmp>
#include <cstdio>
#include <cstdlib>
#include <cstring>
#include <string>
#include <unistd.h>
#include <fcntl.h>
#include <sys/mman.h>
#include <sys/stat.h>
#include <sanitizer/common_interface_defs.h>
extern "C" void __sanitizer_set_report_fd(void *) __attribute__((weak));

extern "C" {
#include "libMultiMarkdown.h"
#include "d_string.h"
#include "token.h"
#include "stack.h"
void ran_start(long seed);
}

// ---- exit() interception (link with -Wl,--wrap=exit) -----------------------------------------------------------
static jmp_buf fz_jb;
static volatile int fz_in_case = 0;
static volatile long fz_exits = 0;
static volatile int fz_exit_code = 0;
extern "C" void __real_exit(int);
extern "C" void __wrap_exit(int c) {
	if (fz_in_case) { fz_exits++; fz_exit_code = c; fz_in_case = 0; longjmp(fz_jb, 1); }
	__real_exit(c);
}
// usage:  if (FZ_GUARDED()) { ...library calls... } FZ_END();   -- returns false in the second arm when exit() was called
#define FZ_GUARDED() (fz_in_case = 1, setjmp(fz_jb) == 0)
#define FZ_END() (fz_in_case = 0)

// ---- capture of what the library writes to fd 2 -------------------------------------------------------------------
static int fz_real_err = -1, fz_cap_fd = -1;
static void cap_init() {
	if (fz_cap_fd >= 0) return;
	fz_real_err = dup(2);
	fz_cap_fd = memfd_create("fd2", 0);
	// sanitizer reports keep going to the real stderr while fd 2 is captured
	if (&__sanitizer_set_report_fd) __sanitizer_set_report_fd((void *)(intptr_t)fz_real_err);
}
static void cap_begin() {
	cap_init(); fflush(stderr);
	if (ftruncate(fz_cap_fd, 0)) {}
	lseek(fz_cap_fd, 0, SEEK_SET);
	dup2(fz_cap_fd, 2);
}
static std::string cap_end() {
	fflush(stderr);
	dup2(fz_real_err, 2);
	off_t n = lseek(fz_cap_fd, 0, SEEK_CUR);
	std::string s; if (n > 0) { if (n > (1 << 16)) n = 1 << 16; s.resize(n); if (pread(fz_cap_fd, &s[0], n, 0) < 0) s.clear(); }
	return s;
}

// ---- per-iteration global state reset --------------------------------------------------------------------------------
static inline void fz_reset_globals() {
	ran_start(314159L);   // default seed of the obfuscation stream (rng.c)
	srand(1);
}
static inline void fz_pool_begin() {
#ifdef kUseObjectPool
	token_pool_init();
#endif
}
static inline void fz_pool_end() {
#ifdef kUseObjectPool
	token_pool_drain();
#endif
}

// ---- oracle failure: write a line the driver can classify, then trap --------------------------------------------------
[[noreturn]] static void fz_oracle_fail(const char * prop, const std::string & signature, const std::string & detail) {
	if (fz_real_err >= 0) dup2(fz_real_err, 2);
	fprintf(stderr, "\nORACLE-FAIL property=%s signature=%s\n%s\n", prop, signature.c_str(), detail.c_str());
	fflush(stderr);
	__builtin_trap();
}

static inline std::string fz_cstr(const std::string & s) { size_t z = s.find('\0'); return z == std::string::npos ? s : s.substr(0, z); }
