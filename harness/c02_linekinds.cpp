// C02 enumerator: every sequence of line kinds (one representative per kind) up to length L, through 7 writers x 2 modes.
//   c02_linekinds enum <L> <shard> <nshards> <outdir>
//   c02_linekinds random <count> <seed> <minlen> <maxlen> <outdir>
//   c02_linekinds repeat <reps> <shard> <nshards> <outdir>     every ordered pair of kinds, repeated <reps> times (long documents)
//   c02_linekinds replay <file>        file: line 1 "fmt=<i> mode=<j>", rest = document
#include "c02_common.h"
#include <fstream>
#include <vector>
#include <unordered_set>

// The plain line calls every kind of definition, so that definition blocks are exported and not only parsed; "\n    more\n" is the
// blank line + indented line pair that continues a definition / list item / note (one composite kind keeps 4-line structures inside L=3).
static const char * K[] = {"ztext [^a] [#a] [?a] [>a] [a][]\n", "    code\n", "\tcode\n", "* zitem\n", "1. zitem\n", "> zquote\n", "```\n", "````\n", "`````\n", "```perl\n",
	"a | b\n", "--|--\n", ": def\n", "key: value\n", "<div>\n", "<span>x</span>\n", "\n", "***\n", "===\n", "---\n", "# zhead\n", "[a]: http://x\n",
	"[^a]: znote\n", "[#a]: zcite\n", "[?a]: zgloss\n", "[>a]: abbr\n", "{{TOC}}\n", "<!--\n", "-->\n", "  ztext \\\\(a\\\\) $b$\n", "+\n", "|\n", "\n    zmore\n", "* key: zitem\n", "> key: zquote\n",
	// a reference definition as the indented continuation of whatever precedes it (list item, definition, note)
	"\n    [^a]: znote\n", "\n    [a]: http://y\n",
	// a note that is called only from inside another note
	"\n[^a]: znote [^b]\n", "[^b]: zinner\n"};
static const int NK = sizeof(K) / sizeof(K[0]);

struct Stats { long docs = 0, conv = 0, nontrivial = 0, failures = 0; std::vector<std::string> samples; std::vector<std::string> fails; } S;
static std::string outdir;

static std::string esc(const std::string & s) { std::string o; for (char c : s) { if (c == '\n') o += "\\n"; else if (c == '\t') o += "\\t"; else if (c == '"' || c == '\\') { o += '\\'; o += c; } else o += c; } return o; }

// "Nothing is silently dropped": words of lines that every writer prints wherever they stand.  `need` is built while the document is
// assembled: the word of a plain line, list item, quote line or ATX heading -- unless the line can legitimately be swallowed by what
// precedes it (the metadata block at the start of the document, a definition that nobody calls, a raw HTML block or comment, an open
// fence), all of which end at a blank line.  A plain line directly after a link definition is the known lazy-continuation finding.
static std::vector<std::string> g_need, g_need_html;
static std::vector<std::string> needed_words(const std::vector<int> & ks) {
	std::vector<std::string> need; bool swallow = false, in_def = false, in_comment = false, after_blank = true; bool called = false, meta_open = false, no_html_defs = false, prev_def_ok = false;
	g_need_html.clear(); std::vector<int> defs;
	for (size_t i = 0; i < ks.size(); i++) {
		int k = ks[i];
		if (k == 37 && !in_comment) { swallow = false; after_blank = true; meta_open = false; }      // this kind begins with a blank line
		bool starts_block = after_blank;
		if (k == 27 || k == 28 || (k >= 6 && k <= 9) || k == 14) no_html_defs = true;      // comments, fences and raw HTML blocks can hold any later line: no claim about definitions then
		if (k == 27) { in_comment = true; continue; }                                     // an HTML comment runs until its closer, across blank lines
		if (k == 28) { in_comment = false; swallow = true; continue; }
		if (in_comment) continue;
		if (k == 16) { swallow = false; after_blank = true; meta_open = false; continue; }                   // blank line
		if (k == 32) {                                                                    // blank + indented line: code, or the continuation of a definition
			if (in_def) swallow = true; else { swallow = false; need.push_back("zmore"); }
			after_blank = false; continue;
		}
		if (k == 35 || k == 36) { swallow = true; in_def = true; after_blank = false; continue; }      // blank + indented definition
		bool is_def = (k >= 21 && k <= 25) || k == 37 || k == 38;
		if (after_blank && (k == 1 || k == 2) && in_def) swallow = true;                   // an indented line after a blank line continues the definition (and takes lazy lines with it)
		if (after_blank && k != 1 && k != 2 && !is_def) in_def = false;                    // an unindented line after a blank line ends a definition
		after_blank = false;
		if (i == 0 && (k == 13 || k == 19)) { swallow = true; meta_open = true; continue; }                 // metadata (possibly behind a --- fence) runs to the first blank line
		if (k == 14 || k == 15 || (k >= 6 && k <= 9)) { swallow = true; continue; }       // raw HTML block, fence opener / closer
		if (is_def) { if (!meta_open && ((!swallow && starts_block) || prev_def_ok)) { defs.push_back(k); prev_def_ok = true; } else prev_def_ok = false; swallow = true; in_def = true; continue; }
		prev_def_ok = false;                          // a definition and its lazy continuation lines are printed only if it is called
		if (swallow) continue;
		if (k == 0) called = true;                                                         // this line calls [^a] [#a] [?a]
		if (k == 0 || k == 29) need.push_back("ztext");
		else if (k == 3 || k == 4 || k == 33) need.push_back("zitem");
		else if (k == 5 || k == 34) need.push_back("zquote");
		else if (k == 20) need.push_back("zhead");
	}
	// HTML prints the text of every definition that the plain line calls (note, citation and glossary lists); a note called only from
	// inside another note is printed as well.  Only definitions that start a block of their own and are the first of their label count.
	if (called && !no_html_defs) {
		auto has = [&](int k) { for (int d : defs) if (d == k) return true; return false; };
		auto first_a = [&]() { for (int d : defs) if (d == 22 || d == 37) return d; return -1; };
		if (first_a() != -1) g_need_html.push_back("znote");
		if (has(23)) g_need_html.push_back("zcite");
		if (has(24)) g_need_html.push_back("zgloss");
		// any other `[^a]:` line before it -- indented, or glued to the line above, whether or not this model counts it as a block of its own -- may be
		// the definition that counts (the first one does), and then nobody calls [^b]
		int first_a_line = -1; for (int k : ks) if (k == 22 || k == 35 || k == 37) { first_a_line = k; break; }
		if (first_a() == 37 && has(38) && first_a_line == 37) g_need_html.push_back("zinner");
	}
	return need;
}

// modes 2 and 3 (only for documents that end with the CriticMarkup tail): the library's own accept / reject option on text that still carries the marks
static bool g_critic_tail = false;
static const char * MODE_NAMES[] = {"mmd", "compat", "mmd+accept", "mmd+reject"};
static void run_doc(const std::string & doc, int len, bool first_plain) {
	S.docs++;
	for (int f = 0; f < 7; f++) for (int m = 0; m < (g_critic_tail ? 4 : 2); m++) {
		std::string out;
		unsigned long mode = m < 2 ? C02_MODES[m] : (C02_MODES[0] | (m == 2 ? EXT_CRITIC_ACCEPT : EXT_CRITIC_REJECT));
		C02Result r = c02_convert(doc, C02_FMTS[f], mode, &out);
		S.conv++;
		if (len >= 2 && r.block_kinds >= 2) { S.nontrivial++; if (S.samples.size() < 4 && f == 0 && m == 0 && (S.docs % 97 == 1)) S.samples.push_back(esc(doc)); }
		if (r.failure.empty() && first_plain && (f <= 4) && out.find("ztext") == std::string::npos) { r.failure = "text-lost"; r.detail = "first plain line does not appear in the output"; }
		if (r.failure.empty() && f <= 4) {
			for (const std::string & w : g_need) if (!(m == 2 && w == "zdel") && !(m == 3 && w == "zadd") && out.find(w) == std::string::npos) { r.failure = "word-lost:" + w; r.detail = "the word '" + w + "' of a line that is always printed does not appear in the output"; break; }
			if (r.failure.empty() && f == 0 && m == 0) for (const std::string & w : g_need_html) if (out.find(w) == std::string::npos) { r.failure = "word-lost:" + w; r.detail = "the text '" + w + "' of a definition that the document calls does not appear in the HTML output"; break; }
		}
		if (!r.failure.empty()) {
			S.failures++;
			if (S.fails.size() < 20) {
				std::string name = outdir + "/fail-" + std::to_string(S.fails.size()) + ".txt";
				std::ofstream o(name); o << "fmt=" << f << " mode=" << m << "\n" << doc;
				S.fails.push_back(r.failure + "|" + C02_FMT_NAMES[f] + "|" + MODE_NAMES[m] + "|" + name + "|" + esc(r.detail));
			}
		}
	}
}

static void dump() {
	std::ofstream o(outdir + "/stats.json");
	o << "{\"docs\":" << S.docs << ",\"conversions\":" << S.conv << ",\"nontrivial\":" << S.nontrivial << ",\"failures\":" << S.failures << ",\"samples\":[";
	for (size_t i = 0; i < S.samples.size(); i++) o << (i ? "," : "") << "\"" << S.samples[i] << "\"";
	o << "],\"fails\":[";
	for (size_t i = 0; i < S.fails.size(); i++) o << (i ? "," : "") << "\"" << S.fails[i] << "\"";
	o << "]}\n";
}

int main(int argc, char ** argv) {
	cap_init();
	if (argc >= 3 && !strcmp(argv[1], "replay")) {
		std::ifstream f(argv[2]); std::string head; std::getline(f, head); std::string doc((std::istreambuf_iterator<char>(f)), std::istreambuf_iterator<char>());
		int fi = 0, mi = 0; sscanf(head.c_str(), "fmt=%d mode=%d", &fi, &mi);
		mi %= 4;
		unsigned long mode = mi < 2 ? C02_MODES[mi] : (C02_MODES[0] | (mi == 2 ? EXT_CRITIC_ACCEPT : EXT_CRITIC_REJECT));
		std::string out; C02Result r = c02_convert(doc, C02_FMTS[fi % 7], mode, &out);
		if (r.failure.empty() && doc.compare(0, 6, "ztext ") == 0 && (fi <= 4) && out.find("ztext") == std::string::npos) { r.failure = "text-lost"; }
		if (r.failure.empty() && fi <= 4 && doc.find("\n\nzlast *zemph") != std::string::npos)
			for (const char * w_ : {"zlast", "zemph", "zstrong", "zlink", "zhigh", "zadd", "zdel"})
				if (doc.find(w_) != std::string::npos && !(mi == 2 && !strcmp(w_, "zdel")) && !(mi == 3 && !strcmp(w_, "zadd")) && out.find(w_) == std::string::npos) { r.failure = std::string("word-lost:") + w_; break; }
		if (!r.failure.empty()) { printf("C02-FAIL %s|%s|%s|%s\n", r.failure.c_str(), C02_FMT_NAMES[fi % 7], MODE_NAMES[mi], r.detail.c_str()); return 1; }
		printf("replay ok\n"); return 0;
	}
	if (argc >= 6 && !strcmp(argv[1], "enum")) {
		int L = atoi(argv[2]); long shard = atol(argv[3]), nsh = atol(argv[4]); outdir = argv[5];
		long total = 1; for (int i = 0; i < L; i++) total *= NK;
		for (long idx = shard; idx < total; idx += nsh) {
			long v = idx; std::string doc; int first = v % NK; std::vector<int> ks;
			for (int i = 0; i < L; i++) { doc += K[v % NK]; ks.push_back(v % NK); v /= NK; }
			g_need = needed_words(ks);
			run_doc(doc, L, first == 0);
		}
		dump(); return 0;
	}
	if (argc >= 6 && !strcmp(argv[1], "repeat")) {
		int reps = atoi(argv[2]); long shard = atol(argv[3]), nsh = atol(argv[4]); outdir = argv[5];
		for (long idx = shard; idx < (long)NK * NK; idx += nsh) {
			std::string unit = std::string(K[idx % NK]) + K[idx / NK], doc;
			for (int i = 0; i < reps; i++) doc += unit;
			g_need = needed_words(std::vector<int>{(int)(idx % NK), (int)(idx / NK)});
			// a closing paragraph with nested inline structure: whatever the repeated blocks did to counters of the parser or of a writer, the
			// end of a long document is still rendered in full (not claimed behind raw HTML / comments, which some writers omit by design)
			int ka = (int)(idx % NK), kb = (int)(idx / NK);
			auto raw = [](int k) { return k == 14 || k == 15 || k == 27 || k == 28; };
			g_critic_tail = false;
			if (!raw(ka) && !raw(kb)) { doc += "\n\nzlast *zemph **zstrong** [zlink](http://x/)* {==zhigh==} {++zadd++}{--zdel--} {>>zcomment<<} end\n"; g_critic_tail = true;
				for (const char * w_ : {"zlast", "zemph", "zstrong", "zlink", "zhigh", "zadd", "zdel"}) g_need.push_back(w_); }
			run_doc(doc, 2 * reps, false);
			g_critic_tail = false;
		}
		dump(); return 0;
	}
	if (argc >= 7 && !strcmp(argv[1], "random")) {
		long count = atol(argv[2]); unsigned long long x = strtoull(argv[3], 0, 10) * 2654435761ULL + 88172645463325252ULL; int lo = atoi(argv[4]), hi = atoi(argv[5]); outdir = argv[6];
		auto rnd = [&]() { x ^= x << 13; x ^= x >> 7; x ^= x << 17; return x; };
		for (long n = 0; n < count; n++) {
			int len = lo + rnd() % (hi - lo + 1); std::string doc; int first = -1; std::vector<int> ks;
			for (int i = 0; i < len; i++) { int k = rnd() % NK; if (i == 0) first = k; doc += K[k]; ks.push_back(k); }
			// the word-level oracle is applied to the exhaustive (deterministic) legs only: its swallow rules are validated there completely,
			// while on long random sequences a rule that is slightly off would raise seed-dependent false alarms
			g_need.clear(); g_need_html.clear();
			run_doc(doc, len, first == 0);
		}
		dump(); return 0;
	}
	fprintf(stderr, "usage\n"); return 2;
}
