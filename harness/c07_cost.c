// C07 cost meter: converts documents given on stdin spec lines and reports executed SanitizerCoverage edges (a deterministic
// cost measure) and the deepest stack address reached inside the library.
//   c07_cost <file> <fmt> <ext> <k>     -> prints "edges=<n> stack=<bytes> out=<bytes>" for the document d^k (k copies separated by a blank line)
// Built against the `cov` variant (trace-pc-guard; miniz uninstrumented).
#include <stdio.h>
#include <stdint.h>
#include <stdlib.h>
#include <string.h>
#include "libMultiMarkdown.h"
#include "d_string.h"
#include "token.h"
static uint64_t edges; static uintptr_t lowest = (uintptr_t) -1, base;
void __sanitizer_cov_trace_pc_guard_init(uint32_t * start, uint32_t * stop) { for (uint32_t * x = start; x < stop; x++) *x = 1; }
void __sanitizer_cov_trace_pc_guard(uint32_t * g) { edges++; uintptr_t sp = (uintptr_t)__builtin_frame_address(0); if (sp < lowest) lowest = sp; }
int main(int argc, char ** argv) {
	if (argc < 5) return 2;
	DString * d = scan_file(argv[1]); if (!d) return 3;
	int fmt = atoi(argv[2]); unsigned long ext = strtoul(argv[3], 0, 0);
	for (int a = 4; a < argc; a++) {
		long k = atol(argv[a]);
		DString * s = d_string_new("");
		for (long i = 0; i < k; i++) { d_string_append_c_array(s, d->str, d->currentStringLength); d_string_append(s, "\n\n"); }
#ifdef kUseObjectPool
		token_pool_init();
#endif
		base = (uintptr_t)__builtin_frame_address(0); edges = 0; lowest = (uintptr_t) -1;
		DString * r = mmd_string_convert_to_data(s->str, ext, fmt, 0, NULL);
		printf("k=%ld in=%lu edges=%llu stack=%lu out=%lu\n", k, s->currentStringLength, (unsigned long long)edges, (unsigned long)(lowest == (uintptr_t) -1 ? 0 : base - lowest), r ? r->currentStringLength : 0);
		fflush(stdout);
		if (r) d_string_free(r, true);
#ifdef kUseObjectPool
		token_pool_drain();
#endif
		d_string_free(s, true);
	}
	return 0;
}
