// C17: independent conversions on different threads (library built with DISABLE_OBJECT_POOL, ThreadSanitizer).
//   c17_threads <docsdir> <streamfile> <outdir> <nthreads> <seed>
// streamfile: one item per line "thread doc fmt ext lang"; thread = -1 in serial mode (nthreads == 0: everything on the main thread).
// Every thread converts its own items in order with its own engine; outputs are written to <outdir>/t<k>.bin as
// (u32 item-line-number, u32 len, bytes)*.  Overlap of conversion intervals is measured with a monotonic clock for the
// evidence counter only.
#include <pthread.h>
#include <sched.h>
#include <time.h>
#include <unistd.h>
#include <cstdio>
#include <cstdlib>
#include <cstring>
#include <string>
#include <vector>
#include <fstream>
#include <sstream>
#include <atomic>
extern "C" {
#include "libMultiMarkdown.h"
#include "d_string.h"
#include "token.h"
}
#ifdef kUseObjectPool
#error "C17 is about the build without the shared token pool"
#endif

struct Item { int line, thread, doc, fmt; unsigned long ext; int lang; };
static std::vector<std::string> DOCS;
static std::vector<Item> ITEMS;
static std::string outdir, fixture;
static std::atomic<int> active{0}; static std::atomic<long> overlapped{0};
static std::atomic<int> go{0};
static unsigned long long seed;

static double now() { struct timespec ts; clock_gettime(CLOCK_MONOTONIC, &ts); return ts.tv_sec + ts.tv_nsec * 1e-9; }

struct Arg { int tid; };
static void * worker(void * p) {
	int tid = ((Arg *)p)->tid;
	std::string path = outdir + "/t" + std::to_string(tid) + ".bin";
	FILE * f = fopen(path.c_str(), "wb");
	unsigned long long x = seed * 6364136223846793005ULL + tid * 1442695040888963407ULL + 1;
	auto rnd = [&]() { x ^= x << 13; x ^= x >> 7; x ^= x << 17; return x; };
	while (tid >= 0 && !go.load()) sched_yield();
	for (auto & it : ITEMS) {
		if (it.thread != tid) continue;
		if (tid >= 0) { int r = rnd() % 8; if (r == 0) sched_yield(); else if (r == 1) usleep(rnd() % 300); }
		if (active.fetch_add(1) > 0) overlapped++;
		// the other public text entry points run on the threads as well: the CLI's text-level CriticMarkup pass before a conversion with
		// --accept / --reject, and the metadata queries
		DString * src = d_string_new(DOCS[it.doc].c_str());
		if (it.ext & EXT_CRITIC_ACCEPT) mmd_critic_markup_accept(src); else if (it.ext & EXT_CRITIC_REJECT) mmd_critic_markup_reject(src);
		DString * r = mmd_string_convert_to_data(src->str, it.ext, it.fmt, it.lang, fixture.empty() ? NULL : fixture.c_str());
		std::string extra;
		if (it.line % 3 == 0 && (it.fmt == FORMAT_HTML || it.fmt == FORMAT_LATEX || it.fmt == FORMAT_OPML)) { char * k = mmd_string_metadata_keys(src->str); if (k) { extra += k; free(k); } char * v = mmd_string_metavalue_for_key(src->str, "title"); if (v) { extra += v; free(v); } }
		d_string_free(src, true);
		active.fetch_sub(1);
		uint32_t ln = it.line, len = (r ? r->currentStringLength : 0) + extra.size();
		fwrite(&ln, 4, 1, f); fwrite(&len, 4, 1, f); if (r && r->currentStringLength) fwrite(r->str, 1, r->currentStringLength, f); if (!extra.empty()) fwrite(extra.data(), 1, extra.size(), f);
		if (r) d_string_free(r, true);
	}
	fclose(f);
	return NULL;
}

int main(int argc, char ** argv) {
	if (argc < 6) { fprintf(stderr, "usage\n"); return 2; }
	std::string docsdir = argv[1]; outdir = argv[3]; int T = atoi(argv[4]); seed = strtoull(argv[5], 0, 10);
	const char * fx = getenv("FZ_FIXTURE"); fixture = fx ? fx : "";
	for (int i = 0;; i++) { std::ifstream f(docsdir + "/" + std::to_string(i) + ".txt", std::ios::binary); if (!f) break; std::stringstream ss; ss << f.rdbuf(); DOCS.push_back(ss.str()); }
	std::ifstream sf(argv[2]); std::string l; int n = 0;
	while (std::getline(sf, l)) { Item it; it.line = n++; if (sscanf(l.c_str(), "%d %d %d %lu %d", &it.thread, &it.doc, &it.fmt, &it.ext, &it.lang) == 5 && it.doc < (int)DOCS.size()) ITEMS.push_back(it); }
	if (T == 0) { for (auto & it : ITEMS) it.thread = -1; Arg a{-1}; worker(&a); }
	else {
		std::vector<pthread_t> th(T); std::vector<Arg> args(T);
		for (int i = 0; i < T; i++) { args[i].tid = i; pthread_create(&th[i], NULL, worker, &args[i]); }
		go.store(1);
		for (int i = 0; i < T; i++) pthread_join(th[i], NULL);
	}
	FILE * s = fopen((outdir + "/stats.txt").c_str(), "w"); fprintf(s, "items=%zu overlapped=%ld\n", ITEMS.size(), overlapped.load()); fclose(s);
	return 0;
}
