// C18: the shared token pool honours its init / drain / free protocol.  rapidcheck state machine + plain replay mode.
//   c18_pool run <outdir>        (RC_PARAMS configures rapidcheck)
//   c18_pool replay <journal>
#include <rapidcheck.h>
#include <rapidcheck/state.h>
#include <sanitizer/asan_interface.h>
#include <sanitizer/lsan_interface.h>
#include <sanitizer/allocator_interface.h>
#include <string>
#include <vector>
#include <map>
#include <set>
#include <sstream>
#include <fstream>
#include <cstring>
#include <unistd.h>
#include <fcntl.h>
extern "C" {
#include <sanitizer/lsan_interface.h>
#include "libMultiMarkdown.h"
#include "d_string.h"
#include "token.h"
void ran_start(long);
}

// ---- documents: sizes sweep through every residue of the 1024-token slab; some span several slabs ----------------------
static std::vector<std::string> DOCS;
static std::vector<long> DOC_TOKENS;
static const short FMTS[] = {FORMAT_HTML, FORMAT_LATEX, FORMAT_FODT, FORMAT_OPML};
static const unsigned long EXTS[] = {EXT_SMART | EXT_NOTES | EXT_CRITIC, EXT_COMPATIBILITY | EXT_NO_LABELS, EXT_NOTES | EXT_COMPLETE};
static std::map<std::string, std::string> REF;

static std::string conv(int d, int f, int x) {
	ran_start(314159L);
	char * r = mmd_string_convert(DOCS[d].c_str(), EXTS[x], FMTS[f], 0); std::string s(r ? r : "<NULL>"); free(r); return s;
}
static std::string refkey(int d, int f, int x) { return std::to_string(d) + "/" + std::to_string(f) + "/" + std::to_string(x); }

struct TreeInfo { size_t sum = 0; long count = 0; std::vector<token *> sample; };
static TreeInfo inspect(token * t) {
	TreeInfo ti; size_t h = 1469598103934665603ULL; std::vector<token *> st{t};
	while (!st.empty()) {
		token * x = st.back(); st.pop_back();
		for (; x; x = x->next) {
			h = (h ^ x->type) * 1099511628211ULL; h = (h ^ x->start) * 1099511628211ULL; h = (h ^ x->len) * 1099511628211ULL; h = (h ^ (x->mate ? x->mate->start : 7)) * 1099511628211ULL;
			if (ti.count % 256 == 0) ti.sample.push_back(x);     // a token from (at least) every slab
			ti.count++;
			if (x->child) st.push_back(x->child);
		}
	}
	ti.sum = h; return ti;
}

struct Held { mmd_engine * e; token * root; TreeInfo info; bool released; };
struct Model { int count = 0; bool pool = false; int held = 0; long tokens_since_drain = 0; };
struct Sut { std::vector<Held> held; ~Sut(); };

// real global state mirrors (the pool is process-global: restored to pristine around every case)
static int G_count = 0; static bool G_pool = false;
Sut::~Sut() {
	// engines are freed while the pool (if any) is still alive or already gone: token frees are no-ops with the pool
	for (auto & h : held) mmd_engine_free(h.e, true);
}

enum Kind { INIT, DRAIN, FREE, CONVERT, PARSE, INSPECT };
static const char * KN[] = {"init", "drain", "free", "convert", "parse", "inspect"};
struct Op { int kind = 0, doc = 0, fmt = 0, ext = 0, idx = 0; };
static std::string ser(const Op & o) { std::ostringstream s; s << KN[o.kind] << ' ' << o.doc << ' ' << o.fmt << ' ' << o.ext << ' ' << o.idx; return s.str(); }
static bool parse_op(const std::string & l, Op & o) { std::istringstream s(l); std::string k; if (!(s >> k >> o.doc >> o.fmt >> o.ext >> o.idx)) return false; o.kind = -1; for (int i = 0; i < 6; i++) if (k == KN[i]) o.kind = i; return o.kind >= 0; }

struct Fail { std::string msg; };
#define CHECK(c, m) do { if (!(c)) throw Fail{std::string(m) + "  [" #c "]"}; } while (0)

static bool legal(const Model & m, const Op & o) {
	switch (o.kind) {
	case INIT: return true;
	case DRAIN: return m.count >= 1;
	case FREE: return m.count == 0 && m.pool;
	case CONVERT: case PARSE: return m.count >= 1;
	case INSPECT: return m.held > 0;
	}
	return false;
}
static void apply(Model & m, const Op & o) {
	switch (o.kind) {
	case INIT: m.count++; m.pool = true; break;
	case DRAIN: m.count--; if (m.count == 0) m.tokens_since_drain = 0; break;
	case FREE: m.pool = false; break;
	case PARSE: m.held++; m.tokens_since_drain += DOC_TOKENS[o.doc]; break;
	default: break;
	}
}

static void check_held(Sut & u, bool deep) {
	for (auto & h : u.held) {
		if (!h.released) {
			CHECK(!__asan_address_is_poisoned(h.root), "a tree created under a still outstanding init was released");
			if (deep) { TreeInfo now = inspect(h.root); CHECK(now.sum == h.info.sum && now.count == h.info.count, "a held tree changed while the pool was still in use"); }
		} else {
			CHECK(__asan_address_is_poisoned(h.root), "memory of a tree is still allocated after the outermost drain");
			for (token * t : h.info.sample) CHECK(__asan_address_is_poisoned(t), "a slab of a drained tree is still allocated after the outermost drain");
		}
	}
}

static void run_op(const Model & before, Sut & u, const Op & o) {
	switch (o.kind) {
	case INIT: token_pool_init(); G_count++; G_pool = true; check_held(u, false); break;
	case DRAIN: {
		size_t b = __sanitizer_get_current_allocated_bytes();
		token_pool_drain(); G_count--;
		if (before.count == 1) {
			size_t a = __sanitizer_get_current_allocated_bytes();
			for (auto & h : u.held) h.released = true;
			long slabs = before.tokens_since_drain / 1024;
			CHECK(a <= b, "allocated bytes grew across the outermost drain");
			CHECK((long)(b - a) >= slabs * 1024 * (long)sizeof(token), "the outermost drain did not release the slabs that were in use");
		}
		check_held(u, before.count > 1);
	} break;
	case FREE: token_pool_free(); G_pool = false; check_held(u, false); break;
	case CONVERT: {
		std::string got = conv(o.doc, o.fmt, o.ext);
		CHECK(got == REF[refkey(o.doc, o.fmt, o.ext)], "conversion result differs from the pristine-pool reference");
		check_held(u, false);
	} break;
	case PARSE: {
		mmd_engine * e = mmd_engine_create_with_string(DOCS[o.doc].c_str(), EXTS[o.ext]); mmd_engine_parse_string(e);
		token * r = mmd_engine_root(e); CHECK(r != NULL, "parse returned no tree");
		u.held.push_back({e, r, inspect(r), false});
		check_held(u, false);
	} break;
	case INSPECT: check_held(u, true); break;
	}
}

// ---- journal / stats ---------------------------------------------------------------------------------------------------------------
static int jfd = -1; static std::string outdir;
static void j_reset() { if (jfd >= 0) { if (ftruncate(jfd, 0)) {} lseek(jfd, 0, SEEK_SET); } }
static void j_add(const Op & o) { if (jfd >= 0) { std::string l = ser(o) + "\n"; if (write(jfd, l.data(), l.size())) {} } }
static uint64_t fnv(const std::string & s) { uint64_t h = 1469598103934665603ULL; for (unsigned char c : s) { h ^= c; h *= 1099511628211ULL; } return h; }
struct Stats { long cases = 0, commands = 0; std::set<uint64_t> nontrivial; std::map<std::string, long> classes; std::vector<std::string> samples; std::string last_fail_journal, last_fail_msg; } S;
struct Trace { std::vector<Op> ops; int maxdepth = 0; bool reinit_after_free = false, freed = false, multislab = false, nested = false; };
static Trace * cur = nullptr;

static void cleanup_globals() { while (G_count > 0) { token_pool_drain(); G_count--; } if (G_pool) { token_pool_free(); G_pool = false; } }

using namespace rc;
struct OpCmd : state::Command<Model, Sut> {
	Op op;
	explicit OpCmd(const Model & m) {
		std::vector<int> w = {INIT, INIT, INIT};
		if (m.count >= 1) { for (int k : {DRAIN, DRAIN, DRAIN, CONVERT, CONVERT, CONVERT, CONVERT, PARSE, PARSE, PARSE}) w.push_back(k); }
		if (m.count == 0 && m.pool) { for (int i = 0; i < 3; i++) w.push_back(FREE); }
		if (m.held > 0) { w.push_back(INSPECT); w.push_back(INSPECT); }
		op.kind = *gen::elementOf(w);
		op.doc = *gen::resize(100, gen::inRange<int>(0, (int)DOCS.size()));
		op.fmt = *gen::resize(100, gen::inRange<int>(0, 4));
		op.ext = *gen::resize(100, gen::inRange<int>(0, 3));
	}
	void checkPreconditions(const Model & m) const override { RC_PRE(legal(m, op)); }
	void apply(Model & m) const override { ::apply(m, op); }
	void run(const Model & m0, Sut & u) const override {
		j_add(op);
		if (cur) {
			cur->ops.push_back(op);
			if (op.kind == INIT) { if (m0.count + 1 > cur->maxdepth) cur->maxdepth = m0.count + 1; if (m0.count >= 1) cur->nested = true; if (cur->freed) cur->reinit_after_free = true; }
			if (op.kind == FREE) cur->freed = true;
			if ((op.kind == PARSE || op.kind == CONVERT) && DOC_TOKENS[op.doc] > 1024) cur->multislab = true;
		}
		try { run_op(m0, u, op); } catch (const Fail & f) { S.last_fail_msg = f.msg; RC_FAIL(f.msg); }
	}
	void show(std::ostream & os) const override { os << ser(op); }
};

static void build_docs() {
	DOCS.push_back("hello *world*\n\n* a\n* b\n");
	DOCS.push_back("# H\n\npara [^1] and [link](http://x.y) <me@example.com>\n\n[^1]: note\n\n| a | b |\n|---|---|\n| c | d |\n");
	for (int m = 1; m <= 3000; m = m < 40 ? m + 13 : (m < 400 ? m + 37 : m + 211)) { std::string s; for (int k = 0; k < m; k++) s += "*a* "; s += "\n"; DOCS.push_back(s); }
	for (int m : {250, 254, 255, 256, 257, 258, 300, 1500, 5200}) { std::string s; for (int k = 0; k < m; k++) { s += "*a* "; if (k % 50 == 49) s += "\n\n"; } s += "\n"; DOCS.push_back(s); }
	token_pool_init();
	for (size_t d = 0; d < DOCS.size(); d++) {
		mmd_engine * e = mmd_engine_create_with_string(DOCS[d].c_str(), EXTS[0]); mmd_engine_parse_string(e); DOC_TOKENS.push_back(inspect(mmd_engine_root(e)).count); mmd_engine_free(e, true);
	}
	token_pool_drain(); token_pool_free();
	// references from a pristine pool, one conversion each
	for (size_t d = 0; d < DOCS.size(); d++) for (int f = 0; f < 4; f++) for (int x = 0; x < 3; x++) {
		token_pool_init(); REF[refkey(d, f, x)] = conv(d, f, x); token_pool_drain(); token_pool_free();
	}
}

static bool leak_seen = false;
static int replay(const char * path) {
	std::ifstream f(path); std::string line; Model m; int n = 0; int rc_ = 0;
	{
		Sut u;
		while (std::getline(f, line)) {
			if (line.empty() || line[0] == '#') continue;
			Op o; if (!parse_op(line, o) || o.doc >= (int)DOCS.size()) { fprintf(stderr, "bad replay line: %s\n", line.c_str()); return 2; }
			if (!legal(m, o)) { printf("replay line %d is not a legal call in the protocol: %s\n", n + 1, line.c_str()); return 2; }
			n++;
			try { run_op(m, u, o); } catch (const Fail & fl) { printf("MISMATCH at command %d %s: %s\n", n, ser(o).c_str(), fl.msg.c_str()); rc_ = 1; break; }
			apply(m, o);
		}
	}
	cleanup_globals();
	if (!rc_ && __lsan_do_recoverable_leak_check()) { printf("MISMATCH after the last command: memory is leaked by this history (LeakSanitizer)\n"); rc_ = 1; }
	if (!rc_) printf("replay ok: %d commands\n", n);
	return rc_;
}

static void dump_stats() {
	std::ofstream f(outdir + "/stats.json");
	f << "{\"cases\":" << S.cases << ",\"commands\":" << S.commands << ",\"nontrivial\":[";
	bool first = true; for (auto h : S.nontrivial) { if (!first) f << ","; first = false; f << "\"" << std::hex << h << std::dec << "\""; }
	f << "],\"classes\":{"; first = true; for (auto & kv : S.classes) { if (!first) f << ","; first = false; f << "\"" << kv.first << "\":" << kv.second; }
	f << "},\"samples\":["; first = true; for (auto & s : S.samples) { if (!first) f << ","; first = false; f << "\"" << s << "\""; }
	f << "]}\n";
}

int main(int argc, char ** argv) {
	build_docs();
	if (argc >= 3 && !strcmp(argv[1], "replay")) return replay(argv[2]);
	if (argc < 3) { fprintf(stderr, "usage\n"); return 2; }
	outdir = argv[2];
	jfd = open((outdir + "/journal.txt").c_str(), O_CREAT | O_TRUNC | O_WRONLY, 0644);
	bool ok = rc::check("token pool honours init/drain/free", [&] {
		struct Guard { ~Guard() { cleanup_globals(); } };
		Trace t; cur = &t; j_reset();
		{
			Guard g;            // restores the pristine global pool state after every case (after the SUT's engines are gone)
			Model m; Sut u;
			try { state::check(m, u, state::gen::execOneOfWithArgs<OpCmd>()); }
			catch (...) { if (!leak_seen) { std::string j; for (auto & o : t.ops) { j += ser(o); j += "\n"; } S.last_fail_journal = j; } cur = nullptr; throw; }
		}
		// everything the history allocated has been released by now (engines freed, pool drained and freed): whatever is still allocated but
		// no longer reachable was lost by the pool protocol (e.g. an init after an outermost drain that builds a second pool)
		if (__lsan_do_recoverable_leak_check()) {
			// (LeakSanitizer goes on reporting a lost block in every later check, so only the FIRST history that leaks is the culprit; the
			// shrinking that follows cannot make it smaller and must not replace it)
			static std::string first_leak;
			if (first_leak.empty()) { for (auto & o : t.ops) { first_leak += ser(o); first_leak += "\n"; } }
			S.last_fail_journal = first_leak; S.last_fail_msg = "memory is leaked by this history (LeakSanitizer)"; cur = nullptr;
			leak_seen = true;
			RC_FAIL("memory is leaked by this history (LeakSanitizer)");
		}
		cur = nullptr;
		S.cases++; S.commands += t.ops.size();
		std::string key; for (auto & o : t.ops) { key += ser(o); key += ";"; S.classes[KN[o.kind]]++; }
		if (t.nested) S.classes["case_with_nested_init"]++;
		if (t.reinit_after_free) S.classes["case_with_reinit_after_free"]++;
		if (t.multislab) S.classes["case_with_multislab_document"]++;
		if ((t.nested || t.reinit_after_free) && t.multislab) { if (S.nontrivial.insert(fnv(key)).second && S.samples.size() < 5 && t.ops.size() <= 14) S.samples.push_back(key); }
	});
	dump_stats();
	if (!ok) { std::ofstream f(outdir + "/failure.txt"); f << "# " << S.last_fail_msg << "\n" << S.last_fail_journal; return 1; }
	j_reset();
	return 0;
}
