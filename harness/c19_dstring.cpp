// C19: DString vs. an ideal string model.  rapidcheck state machine + plain replay mode.
//
//   c19_dstring run <outdir>            (configured through RC_PARAMS)
//   c19_dstring replay <journal-file>   (no rapidcheck involved; exit 1 on mismatch)
//
// Every command is appended to <outdir>/journal.txt *before* it is executed, so a sanitizer abort (which
// bypasses rapidcheck's shrinking) still leaves a replayable command list behind.
#include <rapidcheck.h>
#include <rapidcheck/state.h>
#include <cstdio>
#include <cstring>
#include <cstdint>
#include <string>
#include <vector>
#include <set>
#include <map>
#include <sstream>
#include <fstream>
#include <functional>
#include <unistd.h>
#include <fcntl.h>
extern "C" {
#include "d_string.h"
}

static const size_t NPOS = (size_t)-1;
static const int NSLOT = 3;

struct Model { std::string s[NSLOT]; };
struct Sut {
	DString * d[NSLOT];
	Sut() { for (int i = 0; i < NSLOT; i++) d[i] = d_string_new(""); }
	~Sut() { for (int i = 0; i < NSLOT; i++) d_string_free(d[i], true); }
};

enum Kind { NEW, APPEND, APPEND_C, APPEND_ARR, APPEND_PF, PREPEND, INSERT, INSERT_C, INSERT_ARR, INSERT_PF, ERASE, COPY, REPLACE, NKIND };
static const char * kname[] = {"new", "append", "append_c", "append_c_array", "append_printf", "prepend", "insert", "insert_c", "insert_c_array", "insert_printf", "erase", "copy_substring", "replace", 0};

struct Op {
	int kind = 0, slot = 0;
	size_t pos = 0, len = 0;       // len doubles as `bytes`
	std::string a, b;              // payload / original, replace / printf string arg
	int fmt = 0; int iarg = 0; double farg = 0; char carg = 'x';
};

static std::string hex(const std::string & s) { static const char * h = "0123456789abcdef"; std::string o; for (unsigned char c : s) { o += h[c >> 4]; o += h[c & 15]; } return o.empty() ? "-" : o; }
static std::string unhex(const std::string & s) { if (s == "-") return ""; std::string o; for (size_t i = 0; i + 1 < s.size(); i += 2) o += (char)std::stoi(s.substr(i, 2), 0, 16); return o; }

static std::string ser(const Op & o) {
	std::ostringstream ss;
	ss << kname[o.kind] << ' ' << o.slot << ' ' << o.pos << ' ' << o.len << ' ' << hex(o.a) << ' ' << hex(o.b) << ' ' << o.fmt << ' ' << o.iarg << ' ' << o.farg << ' ' << (int)o.carg;
	return ss.str();
}
static bool parse(const std::string & line, Op & o) {
	std::istringstream ss(line); std::string k, ha, hb; int c;
	if (!(ss >> k >> o.slot >> o.pos >> o.len >> ha >> hb >> o.fmt >> o.iarg >> o.farg >> c)) return false;
	o.kind = -1; for (int i = 0; kname[i]; i++) if (k == kname[i]) o.kind = i;
	o.a = unhex(ha); o.b = unhex(hb); o.carg = (char)c; return o.kind >= 0;
}
static std::string human(const Op & o) {
	std::ostringstream ss; ss << kname[o.kind] << "[s" << o.slot << "](";
	auto P = [&](size_t v) { if (v == NPOS) ss << "-1"; else if (v == NPOS - 1) ss << "-2"; else ss << v; };
	switch (o.kind) {
	case NEW: case APPEND: case PREPEND: ss << "len=" << o.a.size(); break;
	case APPEND_C: ss << (int)o.carg; break;
	case APPEND_ARR: ss << "len=" << o.a.size() << ",bytes="; P(o.len); break;
	case APPEND_PF: ss << "fmt" << o.fmt; break;
	case INSERT: P(o.pos); ss << ",len=" << o.a.size(); break;
	case INSERT_C: P(o.pos); ss << "," << (int)o.carg; break;
	case INSERT_ARR: P(o.pos); ss << ",len=" << o.a.size() << ",bytes="; P(o.len); break;
	case INSERT_PF: P(o.pos); ss << ",fmt" << o.fmt; break;
	case ERASE: case COPY: P(o.pos); ss << ","; P(o.len); break;
	case REPLACE: P(o.pos); ss << ","; P(o.len); ss << ",x" << hex(o.a) << "->x" << hex(o.b); break;
	}
	ss << ")"; return ss.str();
}

static const char * FMTS[] = {"%s", "%d-%s", "%5.2f|%c", "%%", "%s%s"};
static std::string fmt_model(const Op & o) {
	char buf[20000];
	switch (o.fmt) {
	case 0: snprintf(buf, sizeof buf, FMTS[0], o.b.c_str()); break;
	case 1: snprintf(buf, sizeof buf, FMTS[1], o.iarg, o.b.c_str()); break;
	case 2: snprintf(buf, sizeof buf, FMTS[2], o.farg, o.carg); break;
	case 3: snprintf(buf, sizeof buf, "%%"); break;
	default: snprintf(buf, sizeof buf, FMTS[4], o.b.c_str(), o.b.c_str()); break;
	}
	return buf;
}

// ---- ideal model: unbounded integer arithmetic on positions -------------------------------------------------
typedef unsigned __int128 u128;
struct Outcome { bool has_copy = false; bool copy_null = false; std::string copy; long delta = 0; bool straddle = false; std::string alt; long alt_delta = 0; bool oob = false; bool crossed = false; };

static void model_apply(Model & m, const Op & o, Outcome * out) {
	std::string & s = m.s[o.slot];
	size_t before = s.size();
	Outcome dummy; Outcome & r = out ? *out : dummy;
	auto clampins = [&](size_t p) { if (p > s.size()) { r.oob = true; return s.size(); } return p; };
	switch (o.kind) {
	case NEW: s = o.a; break;
	case APPEND: s += o.a; break;
	case APPEND_C: if (o.carg) s += o.carg; break;
	case APPEND_ARR: if (o.len == NPOS) { s += std::string(o.a.c_str()); r.oob = true; } else s += o.a.substr(0, o.len); break;
	case APPEND_PF: s += fmt_model(o); break;
	case PREPEND: s = o.a + s; break;
	case INSERT: if (!o.a.empty()) s.insert(clampins(o.pos), o.a); break;
	case INSERT_C: if (o.carg) s.insert(clampins(o.pos), 1, o.carg); break;
	case INSERT_ARR: if (o.len == NPOS) { r.oob = true; std::string c(o.a.c_str()); if (!c.empty()) s.insert(clampins(o.pos), c); } else s.insert(clampins(o.pos), o.a.substr(0, o.len)); break;
	case INSERT_PF: { std::string f = fmt_model(o); if (!f.empty()) s.insert(clampins(o.pos), f); } break;
	case ERASE:
		if (o.pos > s.size()) { r.oob = true; break; }
		if (o.len == 0) break;
		if (o.len == NPOS || (u128)o.pos + (u128)o.len >= (u128)s.size()) { if (o.len == NPOS || (u128)o.pos + o.len > s.size()) r.oob = true; s.erase(o.pos); }
		else s.erase(o.pos, o.len);
		break;
	case COPY: {
		r.has_copy = true;
		size_t L = o.len;
		if (L == NPOS) { r.oob = true; L = (o.pos <= s.size()) ? s.size() - o.pos : 0; }
		if ((u128)o.pos + (u128)L > (u128)s.size()) { r.copy_null = true; r.oob = true; }
		else r.copy = std::string(s.substr(o.pos, L).c_str());      // the result is a C string: it ends at the first NUL of a byte-array region
	} break;
	case REPLACE: {
		if (o.pos > s.size()) { r.oob = true; break; }
		u128 stop;
		if (o.len == NPOS) { stop = s.size(); r.oob = true; }
		else { stop = (u128)o.pos + o.len; if (stop > s.size()) { stop = s.size(); r.oob = true; } }
		long lo = (long)o.a.size(), lr = (long)o.b.size();
		std::string cur = s; std::string alt; bool have_alt = false; long delta = 0, alt_delta = 0;
		size_t from = o.pos;
		__int128 st = (__int128)stop;
		while (true) {
			size_t i = cur.find(o.a, from);
			if (i == std::string::npos || !((__int128)i < st)) break;
			if ((__int128)i + lo > st && !have_alt) { have_alt = true; alt = cur; alt_delta = delta; r.straddle = true; }
			cur.replace(i, lo, o.b);
			delta += lr - lo; st += lr - lo; from = i + lr;
		}
		s = cur; r.delta = delta; if (have_alt) { r.alt = alt; r.alt_delta = alt_delta; }
	} break;
	}
	// crossed a capacity step (1024 * 2^k) ?
	auto cap = [](size_t n) { size_t c = 1024; while (c < n + 1) c *= 2; return c; };
	if (cap(before) != cap(s.size())) r.crossed = true;
}

struct Fail { std::string msg; };
#define CHECK(c, m) do { if (!(c)) throw Fail{std::string(m) + "  [" #c "]"}; } while (0)

static void sut_run(Sut & u, const Op & o, Model & after, const Outcome & r) {
	DString * d = u.d[o.slot];
	char * cp = NULL; long delta = 0; bool did_copy = false;
	switch (o.kind) {
	case NEW: d_string_free(d, true); d = u.d[o.slot] = d_string_new(o.a.c_str()); break;
	case APPEND: d_string_append(d, o.a.c_str()); break;
	case APPEND_C: d_string_append_c(d, o.carg); break;
	case APPEND_ARR: d_string_append_c_array(d, o.a.c_str(), o.len); break;
	case APPEND_PF:
		switch (o.fmt) {
		case 0: d_string_append_printf(d, FMTS[0], o.b.c_str()); break;
		case 1: d_string_append_printf(d, FMTS[1], o.iarg, o.b.c_str()); break;
		case 2: d_string_append_printf(d, FMTS[2], o.farg, o.carg); break;
		case 3: d_string_append_printf(d, FMTS[3]); break;
		default: d_string_append_printf(d, FMTS[4], o.b.c_str(), o.b.c_str()); break;
		} break;
	case PREPEND: d_string_prepend(d, o.a.c_str()); break;
	case INSERT: d_string_insert(d, o.pos, o.a.c_str()); break;
	case INSERT_C: d_string_insert_c(d, o.pos, o.carg); break;
	case INSERT_ARR: d_string_insert_c_array(d, o.pos, o.a.c_str(), o.len); break;
	case INSERT_PF:
		switch (o.fmt) {
		case 0: d_string_insert_printf(d, o.pos, FMTS[0], o.b.c_str()); break;
		case 1: d_string_insert_printf(d, o.pos, FMTS[1], o.iarg, o.b.c_str()); break;
		case 2: d_string_insert_printf(d, o.pos, FMTS[2], o.farg, o.carg); break;
		case 3: d_string_insert_printf(d, o.pos, FMTS[3]); break;
		default: d_string_insert_printf(d, o.pos, FMTS[4], o.b.c_str(), o.b.c_str()); break;
		} break;
	case ERASE: d_string_erase(d, o.pos, o.len); break;
	case COPY: cp = d_string_copy_substring(d, o.pos, o.len); did_copy = true; break;
	case REPLACE: delta = d_string_replace_text_in_range(d, o.pos, o.len, o.a.c_str(), o.b.c_str()); break;
	}
	if (did_copy) {
		if (r.copy_null) { bool isnull = cp == NULL; free(cp); CHECK(isnull, "copy_substring outside the string must return NULL"); }
		else { CHECK(cp != NULL, "copy_substring inside the string returned NULL"); std::string got(cp); free(cp); CHECK(got == r.copy, "copy_substring content differs from the model"); }
	}
	if (o.kind == REPLACE && r.straddle) {
		// An occurrence straddling the end of the range: "inside the specified range" does not settle it;
		// both answers are accepted and the SUT is re-synchronised with the model afterwards.
		std::string got(d->str, d->currentStringLength);
		bool okA = got == after.s[o.slot] && delta == r.delta;
		bool okB = got == r.alt && delta == r.alt_delta;
		CHECK(okA || okB, "replace_text_in_range result matches neither reading of a straddling occurrence");
		if (!okA) { d_string_free(d, true); d = u.d[o.slot] = d_string_new(after.s[o.slot].c_str()); }
	} else if (o.kind == REPLACE) {
		CHECK(delta == r.delta, "replace_text_in_range returned a wrong length delta");
	}
	for (int i = 0; i < NSLOT; i++) {
		DString * x = u.d[i]; const std::string & m = after.s[i];
		CHECK(x->currentStringLength == m.size(), "recorded length differs from the model's length");
		CHECK(memcmp(x->str, m.data(), m.size()) == 0, "buffer content differs from the model");
		CHECK(x->str[x->currentStringLength] == 0, "buffer is not NUL-terminated at its recorded length");
		if (m.find('\0') == std::string::npos) CHECK(strlen(x->str) == m.size(), "strlen differs from recorded length");
		CHECK(x->currentStringBufferSize > x->currentStringLength, "capacity not larger than length");
	}
}

// ---- journal / counters ---------------------------------------------------------------------------------------
static int jfd = -1;
static std::string outdir;
static void j_reset() { if (jfd >= 0) { if (ftruncate(jfd, 0)) {} lseek(jfd, 0, SEEK_SET); } }
static void j_add(const Op & o) { if (jfd >= 0) { std::string l = ser(o) + "\n"; if (write(jfd, l.data(), l.size())) {} } }

static uint64_t fnv(const std::string & s) { uint64_t h = 1469598103934665603ULL; for (unsigned char c : s) { h ^= c; h *= 1099511628211ULL; } return h; }

struct Stats {
	long cases = 0, commands = 0, straddles = 0;
	std::set<uint64_t> nontrivial; std::map<std::string, long> classes; std::vector<std::string> samples;
	std::string last_fail_journal, last_fail_msg;
} S;

struct CaseTrace { std::vector<Op> ops; bool oob = false, crossed = false; };
static CaseTrace * cur = nullptr;

static void case_done(const CaseTrace & t) {
	S.cases++; S.commands += t.ops.size();
	std::string key, hum;
	for (auto & o : t.ops) { key += ser(o); key += '\n'; S.classes[kname[o.kind]]++; }
	if (t.oob) S.classes["case_with_out_of_range_or_-1_argument"]++;
	if (t.crossed) S.classes["case_crossing_capacity_step"]++;
	if (t.oob && t.crossed) {
		if (S.nontrivial.insert(fnv(key)).second && S.samples.size() < 6 && t.ops.size() <= 12) {
			for (auto & o : t.ops) { hum += human(o); hum += "; "; }
			S.samples.push_back(hum);
		}
	}
}

static void dump_stats() {
	std::ofstream f(outdir + "/stats.json");
	f << "{\"cases\":" << S.cases << ",\"commands\":" << S.commands << ",\"straddles\":" << S.straddles << ",\"nontrivial\":[";
	bool first = true; for (auto h : S.nontrivial) { if (!first) f << ","; first = false; f << "\"" << std::hex << h << std::dec << "\""; }
	f << "],\"classes\":{"; first = true; for (auto & kv : S.classes) { if (!first) f << ","; first = false; f << "\"" << kv.first << "\":" << kv.second; }
	f << "},\"samples\":["; first = true; for (auto & s : S.samples) { if (!first) f << ","; first = false; f << "\""; for (char c : s) { if (c == '"' || c == '\\') f << '\\'; if ((unsigned char)c >= 32) f << c; } f << "\""; }
	f << "]}\n";
}

// ---- generators ------------------------------------------------------------------------------------------------
using namespace rc;
static Gen<size_t> posGen(size_t len) {
	return gen::oneOf(
		gen::element<size_t>(0, 1, len ? len - 1 : 0, len, len + 1, 2 * len, NPOS, NPOS - 1, (NPOS / 2) + 1),
		gen::resize(60, gen::inRange<size_t>(0, len + 2)));
}
static Gen<std::string> smallText() {
	return gen::resize(12, gen::container<std::string>(gen::element<char>('a', 'b', 'c', 'a', 'b', ' ', '%', '\xc3', '\xa9')));
}
static Gen<std::string> payload() {
	return gen::weightedOneOf<std::string>({
		{6, smallText()},
		{1, gen::map(gen::element<size_t>(1021, 1022, 1023, 1024, 1025, 2047, 2048, 2049, 4095, 4096, 4097), [](size_t n) { std::string s(n, 'x'); for (size_t i = 0; i < n; i += 7) s[i] = 'a' + (i % 3); return s; })},
		{1, gen::just(std::string())}});
}

// byte arrays are not C strings: they may hold NUL bytes (d_string_*_c_array take an explicit byte count)
static Gen<std::string> arrayPayload() {
	return gen::weightedOneOf<std::string>({
		{5, payload()},
		{2, gen::resize(8, gen::container<std::string>(gen::element<char>('a', 'b', '\0', '\0', 'c', '\xff')))}});
}

// the string argument of the formatted-text operations: short texts, and lengths around every power of two (formatting goes through a
// temporary buffer whose size nobody outside knows)
static Gen<std::string> pfText() {
	return gen::weightedOneOf<std::string>({
		{5, smallText()},
		{3, gen::map(gen::pair(gen::element<size_t>(16, 32, 64, 128, 256, 512, 1024, 2048, 4096), gen::element<int>(-2, -1, 0, 0, 1, 2)),
		             [](const std::pair<size_t, int> & p) { size_t n = p.first + p.second; std::string t(n, 'p'); for (size_t i = 0; i < n; i += 5) t[i] = 'a' + (i % 7); return t; })}});
}

struct OpCmd : state::Command<Model, Sut> {
	Op op;
	explicit OpCmd(const Model & m) {
		op.slot = *gen::weightedElement<int>({{6, 0}, {2, 1}, {1, 2}});
		size_t len = m.s[op.slot].size();
		op.kind = *gen::weightedElement<int>({{1, NEW}, {4, APPEND}, {2, APPEND_C}, {2, APPEND_ARR}, {2, APPEND_PF}, {2, PREPEND}, {4, INSERT}, {2, INSERT_C}, {3, INSERT_ARR}, {2, INSERT_PF}, {5, ERASE}, {4, COPY}, {5, REPLACE}});
		if (op.kind == REPLACE && m.s[op.slot].find('\0') != std::string::npos) op.kind = ERASE;     // replace searches with strstr(): a C-string operation
		switch (op.kind) {
		case NEW: case APPEND: case PREPEND: op.a = *payload(); break;
		case APPEND_C: op.carg = *gen::element<char>('a', 'z', 0, '\n', '\xff'); break;
		case APPEND_ARR: op.a = *arrayPayload(); op.len = *gen::oneOf(gen::just(NPOS), gen::just(op.a.size()), gen::resize(60, gen::inRange<size_t>(0, op.a.size() + 1))); break;
		case APPEND_PF: case INSERT_PF: op.fmt = *gen::resize(60, gen::inRange(0, 5)); op.b = *pfText(); op.iarg = *gen::arbitrary<int>(); op.farg = (*gen::resize(60, gen::inRange(-100000, 100000))) / 37.0; op.carg = *gen::element<char>('a', 'Z', '%'); if (op.kind == INSERT_PF) op.pos = *posGen(len); break;
		case INSERT: op.a = *payload(); op.pos = *posGen(len); break;
		case INSERT_C: op.carg = *gen::element<char>('a', 'z', 0, '\n'); op.pos = *posGen(len); break;
		case INSERT_ARR: op.a = *arrayPayload(); op.pos = *posGen(len); op.len = *gen::oneOf(gen::just(NPOS), gen::just(op.a.size()), gen::resize(60, gen::inRange<size_t>(0, op.a.size() + 1))); break;
		case ERASE: case COPY: op.pos = *posGen(len); op.len = *posGen(len); break;
		case REPLACE: {
			op.pos = *posGen(len); op.len = *posGen(len);
			// original: non-empty; prefer something that occurs in the current string
			const std::string & s = m.s[op.slot];
			if (!s.empty() && *gen::resize(60, gen::inRange(0, 4)) != 0) {
				size_t i = *gen::resize(60, gen::inRange<size_t>(0, s.size()));
				size_t l = 1 + *gen::resize(60, gen::inRange<size_t>(0, 3));
				op.a = s.substr(i, l);
			} else { op.a = *gen::element<std::string>("a", "ab", "aa", "b", "xa"); }
			op.b = *gen::oneOf(smallText(), gen::just(op.a + op.a), gen::just(std::string()));
		} break;
		}
	}
	void apply(Model & m) const override { model_apply(m, op, nullptr); }
	void run(const Model & m0, Sut & u) const override {
		j_add(op);
		Model m = m0; Outcome r; model_apply(m, op, &r);
		if (cur) { cur->ops.push_back(op); cur->oob |= r.oob; cur->crossed |= r.crossed; }
		if (r.straddle) S.straddles++;
		try { sut_run(u, op, m, r); }
		catch (const Fail & f) { S.last_fail_msg = f.msg; RC_FAIL(f.msg); }
	}
	void show(std::ostream & os) const override { os << human(op); }
};

static int replay(const char * path) {
	std::ifstream f(path); std::string line; Model m; Sut u; int n = 0;
	while (std::getline(f, line)) {
		if (line.empty() || line[0] == '#') continue;
		Op o; if (!parse(line, o)) { fprintf(stderr, "bad replay line: %s\n", line.c_str()); return 2; }
		Outcome r; model_apply(m, o, &r); n++;
		try { sut_run(u, o, m, r); }
		catch (const Fail & fl) { printf("MISMATCH at command %d %s: %s\n", n, human(o).c_str(), fl.msg.c_str()); return 1; }
	}
	printf("replay ok: %d commands\n", n); return 0;
}

int main(int argc, char ** argv) {
	if (argc >= 3 && !strcmp(argv[1], "replay")) return replay(argv[2]);
	if (argc < 3) { fprintf(stderr, "usage\n"); return 2; }
	outdir = argv[2];
	jfd = open((outdir + "/journal.txt").c_str(), O_CREAT | O_TRUNC | O_WRONLY, 0644);
	bool ok = rc::check("DString behaves like the ideal string model", [&] {
		Model m; Sut u; CaseTrace t; cur = &t; j_reset();
		try { state::check(m, u, state::gen::execOneOfWithArgs<OpCmd>()); }
		catch (...) {
			std::string j; for (auto & o : t.ops) { j += ser(o); j += "\n"; }
			S.last_fail_journal = j; cur = nullptr; throw;
		}
		cur = nullptr; case_done(t);
	});
	dump_stats();
	if (!ok) {
		std::ofstream f(outdir + "/failure.txt"); f << "# " << S.last_fail_msg << "\n" << S.last_fail_journal;
		return 1;
	}
	j_reset();
	return 0;
}
