// C02 oracle shared by the enumerator and the fuzz target: a conversion must return control with a rendering of the whole
// document -- no exit(), no "unknown token"/"parse failed" escape, no empty tree for a non-blank source.
#pragma once
#include "fz_common.h"
#include <set>

static const short C02_FMTS[] = {FORMAT_HTML, FORMAT_LATEX, FORMAT_BEAMER, FORMAT_MEMOIR, FORMAT_FODT, FORMAT_OPML, FORMAT_ITMZ};
static const char * C02_FMT_NAMES[] = {"html", "latex", "beamer", "memoir", "fodt", "opml", "itmz"};
static const unsigned long C02_MODES[] = {EXT_SMART | EXT_NOTES | EXT_CRITIC, EXT_COMPATIBILITY | EXT_NO_LABELS | EXT_OBFUSCATE | EXT_NO_METADATA};

struct C02Result { std::string failure; std::string detail; int block_kinds = 0; bool exited = false; };

static bool has_nonblank_line(const std::string & s) {
	for (char c : s) if (c != ' ' && c != '\t' && c != '\n' && c != '\r') return true;
	return false;
}

// Runs one conversion under the C02 oracle.  `ext` is the complete extension set.
static C02Result c02_convert(const std::string & doc, short fmt, unsigned long ext, std::string * out_text = nullptr) {
	C02Result r;
	cap_begin();
	fz_pool_begin();
	std::string out; bool isnull = false;
	if (FZ_GUARDED()) {
		mmd_engine * e = mmd_engine_create_with_string(doc.c_str(), ext);
		mmd_engine_parse_string(e);
		token * root = mmd_engine_root(e);
		std::set<int> kinds; int nchild = 0;
		if (root) for (token * t = root->child; t; t = t->next) { nchild++; if (t->type != BLOCK_EMPTY) kinds.insert(t->type); }
		r.block_kinds = (int)kinds.size();
		if (!root || (nchild == 0 && has_nonblank_line(doc))) { r.failure = "empty-tree"; r.detail = "parse produced no blocks for a non-blank source"; }
		DString * o = d_string_new("");
		mmd_engine_export_token_tree(o, e, fmt);
		out.assign(o->str, o->currentStringLength);
		d_string_free(o, true);
		mmd_engine_free(e, true);
	} else {
		r.exited = true; r.failure = "exit"; r.detail = "library called exit(" + std::to_string((int)fz_exit_code) + ")";
	}
	FZ_END();
	fz_pool_end();
	std::string err = cap_end();
	(void)isnull;
	if (r.failure.empty()) {
		const char * pats[] = {"Unknown token type", "Parser failed to successfully parse", "Parser syntax error"};
		for (const char * p : pats) {
			size_t at = err.find(p);
			if (at != std::string::npos) { r.failure = std::string("diagnostic:") + (p[0] == 'U' ? "unknown-token" : p[7] == 'f' ? "parse-failed" : "syntax-error"); r.detail = err.substr(at, 160); break; }
		}
	}
	if (out_text) *out_text = out;
	return r;
}
