// C15: the exposed token tree is structurally sound and stays inside the source.
// Checked after mmd_engine_parse_string, after mmd_engine_parse_substring(start,len) and again after export through each writer.
#include <fuzzer/FuzzedDataProvider.h>
#include "fz_common.h"
#include <unordered_set>
#include <vector>
extern "C" {
#include "token_pairs.h"
#include "parser.h"
}

static const char * fail = nullptr; static token * failtok = nullptr;
static long walked_depth = 0; static bool saw_mate = false;

static void walk(token * root, size_t lo, size_t hi, bool is_root_call) {
	std::unordered_set<token *> seen; std::vector<std::pair<token *, int>> st; st.push_back({root, 0});
	while (!st.empty()) {
		token * first = st.back().first; int depth = st.back().second; st.pop_back();
		if (depth > walked_depth) walked_depth = depth;
		token * prev = nullptr; size_t last = 0;
		for (token * t = first; t; t = t->next) {
			if (!seen.insert(t).second) { fail = "I6-revisit"; failtok = t; return; }
			if (t != root && t->prev != prev) { fail = "I3-prev"; failtok = t; return; }
			if (t->start > hi || t->len > hi || t->start + t->len > hi) { fail = "I2-span"; failtok = t; return; }
			if (prev && t->start < last) { fail = "I4-order"; failtok = t; return; }
			if (t->mate) { saw_mate = true; if (t->mate->mate != t) { fail = "I5-mate"; failtok = t; return; } }
			if (t->type >= kMaxTokenTypes) { fail = "I7-type"; failtok = t; return; }
			last = t->start; prev = t;
			if (t->child) st.push_back({t->child, depth + 1});
		}
	}
}

static std::unordered_set<uint64_t> * nontrivial = nullptr;
static void dump_counts() {
	const char * p = getenv("FZ_COUNTS"); if (!p || !nontrivial) return;
	FILE * f = fopen(p, "a"); if (f) { fprintf(f, "%zu\n", nontrivial->size()); fclose(f); }
}

extern "C" int LLVMFuzzerTestOneInput(const uint8_t * data, size_t size) {
	static bool once = false;
	if (!once) {
		once = true; cap_init();
		// relations between the published enum ranges that the library's tables assume (single evaluated facts)
		if (!(OBJECT_REPLACEMENT_CHARACTER < kMaxTokenTypes)) fz_oracle_fail("C15", "const:last-token-type>=kMaxTokenTypes", "OBJECT_REPLACEMENT_CHARACTER >= kMaxTokenTypes");
		if (!(DOC_START_TOKEN == 0)) fz_oracle_fail("C15", "const:DOC_START_TOKEN!=0", "");
		// PARSER_H_MAX = largest value #defined in parser.h, computed by the driver from the header itself
		if (!(BLOCK_BLOCKQUOTE > PARSER_H_MAX))
			fz_oracle_fail("C15", "const:BLOCK_BLOCKQUOTE-overlaps-parser.h", "");
	}
	fz_reset_globals();
	FuzzedDataProvider fdp(data, size);
	int fi = fdp.ConsumeIntegralInRange<int>(0, 8);       // 0 = no export, 1..7 writers, 8 = all writers in turn
	unsigned long ext = fdp.ConsumeIntegral<uint32_t>() & 0x1FFFF & ~(unsigned long)(EXT_PARSE_OPML | EXT_PARSE_ITMZ | EXT_TRANSCLUDE);
	int how = fdp.ConsumeIntegralInRange<int>(0, 3);      // 0,1: whole string; 2,3: sub-range
	uint16_t a = fdp.ConsumeIntegral<uint16_t>(), b = fdp.ConsumeIntegral<uint16_t>();
	std::string doc = fz_cstr(fdp.ConsumeRemainingBytesAsString());
	static const short F[] = {-1, FORMAT_HTML, FORMAT_LATEX, FORMAT_BEAMER, FORMAT_MEMOIR, FORMAT_FODT, FORMAT_OPML, FORMAT_ITMZ};
	size_t L = doc.size();
	size_t s = 0, l = L;
	if (how >= 2 && L) { s = a % (L + 1); l = (L - s) ? b % (L - s + 1) : 0; }
	cap_begin(); fz_pool_begin();
	fail = nullptr; failtok = nullptr; walked_depth = 0; saw_mate = false;
	const char * phase = "parse"; int fmt_at_fail = -1;
	if (FZ_GUARDED()) {
		mmd_engine * e = mmd_engine_create_with_string(doc.c_str(), ext);
		token * root;
		if (how >= 2) { root = mmd_engine_parse_substring(e, s, l); phase = "parse_substring"; }
		else { mmd_engine_parse_string(e); root = mmd_engine_root(e); }
		if (!root) { if (how < 2 || l > 0) fail = "I1-null-root"; }
		else {
			if (root->type != DOC_START_TOKEN || root->next || root->prev) { fail = "I1-root-shape"; failtok = root; }
			else if (how < 2 && (root->start != 0 || root->len != L)) { fail = "I1-root-span"; failtok = root; }
			// (for a sub-string parse the statement only promises that tokens stay inside the source: the lexer may finish a token that
			//  begins inside the requested range, so the root may reach past its end)
			if (!fail) walk(root, 0, L, true);
			if (!fail && how < 2 && fi > 0) {
				int lo = fi == 8 ? 1 : fi, hi = fi == 8 ? 7 : fi;
				for (int k = lo; k <= hi && !fail; k++) {
					phase = "export"; fmt_at_fail = F[k];
					DString * o = d_string_new(""); mmd_engine_export_token_tree(o, e, F[k]); d_string_free(o, true);
					root = mmd_engine_root(e); if (root) walk(root, 0, L, true);
				}
			}
		}
		if (fail) {
			char buf[400]; snprintf(buf, sizeof buf, "%s phase=%s fmt=%d ext=0x%lx type=%d start=%zu len=%zu L=%zu range=(%zu,%zu)", fail, phase, fmt_at_fail, ext,
			                        failtok ? failtok->type : -1, failtok ? failtok->start : 0, failtok ? failtok->len : 0, L, s, l);
			std::string sig = std::string(fail) + ":" + phase;
			if (fz_real_err >= 0) dup2(fz_real_err, 2);
			fz_oracle_fail("C15", sig, std::string(buf) + "\n<<<" + doc + ">>>");
		}
		if (walked_depth >= 3 && saw_mate) {
			if (!nontrivial) { nontrivial = new std::unordered_set<uint64_t>(); atexit(dump_counts); }
			uint64_t h = 1469598103934665603ULL; for (size_t i = 0; i < size; i++) { h ^= data[i]; h *= 1099511628211ULL; } nontrivial->insert(h);
		}
		mmd_engine_free(e, true);
	}
	FZ_END(); fz_pool_end(); cap_end();
	return 0;
}
