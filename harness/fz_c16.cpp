// C16: valid UTF-8 in, valid UTF-8 out.  Input bytes are mapped onto a *valid* UTF-8 document (G-utf8): bytes < 0x80 are kept
// (NUL dropped), every byte >= 0x80 selects a code point from a table chosen for the bytes the lexer and char.c treat specially.
#include <fuzzer/FuzzedDataProvider.h>
#include "fz_common.h"
#include <unordered_set>

static const char * CP[] = {
	"\xc2\xa0", "\xc3\xa0", "\xc3\x82", "\xc3\x83", "\xc2\x85", "\xe2\x80\xa8", "\xef\xbf\xbc", "\xef\xbb\xbf", "\xcc\x81", "\xe4\xb8\xad",
	"\xf0\x9f\x98\x80", "\xf4\x8f\xbf\xbf", "\xc3\xa9", "\xe2\x80\x94", "\xe2\x80\x9c", "\xd7\x90", "\xc2\xab", "\xe2\x82\xac", "\xe1\xb8\xbc", "\xc5\x81",
	"\xc3\x84", "\xc3\x96", "\xc3\x9f", "\xc2\xbb", "\xe2\x80\x99", "\xe2\x80\xa6", "\xc2\xa9", "\xe0\xa4\x85", "\xf0\x90\x8d\x88", "\xef\xbc\xa1",
	"\xc2\x80", "\xdf\xbf", "\xe0\xa0\x80", "\xed\x9f\xbf", "\xee\x80\x80", "\xef\xbf\xbd", "\xf0\x90\x80\x80", "\xc2\xad", "\xe2\x80\x8b", "\xe2\x80\x8d",
	// multi-byte characters whose LAST byte is one that byte-wise code mistakes for a character of its own (A0 = low byte of NBSP, AB/BB = Latin-1 guillemets, 85 = NEL)
	"\xe2\x9a\xa0", "\xe4\xbd\xa0", "\xf0\x9f\x98\xa0", "\xe2\x80\xa0", "\xc3\xab", "\xd0\xbb", "\xe4\xb8\xab", "\xe2\x80\x85"};
static const int NCP = sizeof(CP) / sizeof(CP[0]);

// strict validator (independent of the repository's utf8 code): rejects overlongs, surrogates, > U+10FFFF, truncation
static bool valid(const unsigned char * s, size_t n, size_t * at = nullptr) {
	size_t i = 0;
	while (i < n) {
		unsigned c = s[i]; if (c < 0x80) { i++; continue; }
		int l; unsigned cp;
		if ((c & 0xE0) == 0xC0) { l = 2; cp = c & 0x1F; } else if ((c & 0xF0) == 0xE0) { l = 3; cp = c & 0x0F; } else if ((c & 0xF8) == 0xF0) { l = 4; cp = c & 0x07; } else { if (at) *at = i; return false; }
		if (i + l > n) { if (at) *at = i; return false; }
		for (int k = 1; k < l; k++) { if ((s[i + k] & 0xC0) != 0x80) { if (at) *at = i; return false; } cp = (cp << 6) | (s[i + k] & 0x3F); }
		if ((l == 2 && cp < 0x80) || (l == 3 && (cp < 0x800 || (cp >= 0xD800 && cp <= 0xDFFF))) || (l == 4 && (cp < 0x10000 || cp > 0x10FFFF))) { if (at) *at = i; return false; }
		i += l;
	}
	return true;
}

static std::string excerpt(const std::string & s, size_t at) {
	size_t lo = at > 24 ? at - 24 : 0; std::string o; char b[8];
	for (size_t i = lo; i < s.size() && i < at + 12; i++) { unsigned char c = s[i]; if (c >= 0x20 && c < 0x7f) o += c; else { snprintf(b, sizeof b, "\\x%02x", c); o += b; } }
	return o;
}

static void require_valid(const std::string & out, const char * what, const std::string & doc) {
	size_t at = 0;
	if (!valid((const unsigned char *)out.data(), out.size(), &at))
		fz_oracle_fail("C16", std::string("invalid-utf8:") + what, "at byte " + std::to_string(at) + ": ..." + excerpt(out, at) + "\n<<<" + doc + ">>>");
}

static std::unordered_set<uint64_t> * nontrivial = nullptr;
static void dump_counts() { const char * p = getenv("FZ_COUNTS"); if (!p || !nontrivial) return; FILE * f = fopen(p, "a"); if (f) { fprintf(f, "%zu\n", nontrivial->size()); fclose(f); } }

extern "C" int LLVMFuzzerTestOneInput(const uint8_t * data, size_t size) {
	cap_init();
	fz_reset_globals();
	FuzzedDataProvider fdp(data, size);
	uint16_t eb = fdp.ConsumeIntegral<uint16_t>();
	int lang = fdp.ConsumeIntegralInRange<int>(0, 6);
	int which = fdp.ConsumeIntegralInRange<int>(0, 7);
	std::string raw = fdp.ConsumeRemainingBytesAsString();
	std::string doc; bool adjacent = false; bool prev_syntax = false;
	for (size_t i = 0; i < raw.size(); i++) {
		unsigned char c = raw[i];
		if (c == 0) continue;
		if (c < 0x80) { doc.push_back(c); prev_syntax = strchr("*_`[]()<>#|:~^\\\"'{}&!-+=$%\n", c) != nullptr; }
		else { doc += CP[(c & 0x7f) % NCP]; if (prev_syntax || i + 1 == raw.size() || (i + 1 < raw.size() && (unsigned char)raw[i + 1] < 0x80 && strchr("*_`[]()<>#|:~^\\\"'{}&!-+=$%\n", raw[i + 1]))) adjacent = true; prev_syntax = false; }
	}
	if (!valid((const unsigned char *)doc.data(), doc.size())) fz_oracle_fail("C16", "generator-produced-invalid-input", doc);
	unsigned long ext = ((eb & 1) ? EXT_SMART : 0) | ((eb & 2) ? EXT_COMPATIBILITY : 0) | ((eb & 4) ? EXT_COMPLETE : 0) | ((eb & 8) ? EXT_NO_LABELS : 0) |
	                    ((eb & 16) ? EXT_OBFUSCATE : 0) | ((eb & 32) ? EXT_CRITIC_ACCEPT : 0) | ((eb & 64) ? 0 : EXT_NOTES) | ((eb & 128) ? 0 : EXT_CRITIC) |
	                    ((eb & 256) ? EXT_SNIPPET : 0) | ((eb & 512) ? EXT_PROCESS_HTML : 0) | ((eb & 1024) ? EXT_CRITIC_REJECT : 0) | ((eb & 2048) ? EXT_NO_METADATA : 0) |
	                    ((eb & 4096) ? EXT_RANDOM_LABELS : 0);
	static const short F[] = {FORMAT_HTML, FORMAT_LATEX, FORMAT_BEAMER, FORMAT_MEMOIR, FORMAT_FODT, FORMAT_OPML};
	static const char * FN[] = {"html", "latex", "beamer", "memoir", "fodt", "opml"};
	cap_begin(); fz_pool_begin();
	if (FZ_GUARDED()) {
		for (int f = 0; f < 6; f++) {
			if (which < 6 && which != f && f != 0) continue;       // always HTML; plus one other, or all
			DString * r = mmd_string_convert_to_data(doc.c_str(), ext, F[f], lang, NULL);
			if (r) { std::string out(r->str, r->currentStringLength); d_string_free(r, true); require_valid(out, FN[f], doc); }
			if (f == 4) { char * b = mmd_string_convert(doc.c_str(), ext, F[f], lang); if (b) { std::string out(b); free(b); require_valid(out, "fodt-body", doc); } }
		}
		// side APIs that return text
		std::string buf = doc; buf.push_back('\0');
		char * k = mmd_string_metadata_keys(&buf[0]);
		if (k) { std::string keys(k); free(k); require_valid(keys, "metadata-keys", doc);
			size_t p = 0; int n = 0;
			while (p < keys.size() && n < 4) { size_t q = keys.find('\n', p); if (q == std::string::npos) q = keys.size(); std::string key = keys.substr(p, q - p); p = q + 1; n++;
				char * v = mmd_string_metavalue_for_key(&buf[0], key.c_str()); if (v) { std::string val(v); free(v); require_valid(val, "metavalue", doc); } } }
		{ DString * d = d_string_new(doc.c_str()); mmd_critic_markup_accept(d); require_valid(std::string(d->str, d->currentStringLength), "critic-accept", doc); d_string_free(d, true); }
		{ DString * d = d_string_new(doc.c_str()); mmd_critic_markup_reject(d); require_valid(std::string(d->str, d->currentStringLength), "critic-reject", doc); d_string_free(d, true); }
		if (which >= 6) {
			char * o = mmd_string_convert(doc.c_str(), ext & ~(unsigned long)EXT_COMPATIBILITY, FORMAT_OPML, lang);
			if (o) { DString * t = mmd_string_convert_opml_to_text(o); free(o); if (t) { require_valid(std::string(t->str, t->currentStringLength), "opml-reimport", doc); d_string_free(t, true); } }
			// the document as the payload of a hand-written OPML file, with Latin-1 characters spelled as numeric character references
			// (valid XML for the same characters): the importer and everything after it must still produce valid UTF-8
			{
				auto xesc = [](const std::string & t) { std::string o; for (size_t i = 0; i < t.size(); i++) { unsigned char c = t[i];
					if (c == '&') o += "&amp;"; else if (c == '<') o += "&lt;"; else if (c == '>') o += "&gt;"; else if (c == '"') o += "&quot;"; else if (c == '\n') o += "&#10;"; else if (c == '\t') o += "&#9;";
					else if ((c == 0xC2 || c == 0xC3) && i + 1 < t.size() && ((unsigned char)t[i + 1] & 0xC0) == 0x80) { o += "&#" + std::to_string(((c & 0x1F) << 6) | ((unsigned char)t[i + 1] & 0x3F)) + ";"; i++; }
					else o += (char)c; } return o; };
				size_t nl = doc.find('\n'); std::string title = doc.substr(0, nl == std::string::npos ? doc.size() : nl), body = nl == std::string::npos ? "" : doc.substr(nl);
				std::string ox = "<?xml version=\"1.0\" encoding=\"utf-8\"?>\n<opml version=\"1.0\">\n<body>\n<outline text=\"" + xesc(title) + "\" _note=\"" + xesc(body) + "\"></outline>\n</body>\n</opml>\n";
				DString * t = mmd_string_convert_opml_to_text(ox.c_str());
				if (t) { require_valid(std::string(t->str, t->currentStringLength), "opml-import", ox); d_string_free(t, true); }
				char * h = mmd_string_convert(ox.c_str(), (ext | EXT_PARSE_OPML) & ~(unsigned long)EXT_COMPATIBILITY, FORMAT_HTML, lang);
				if (h) { require_valid(std::string(h), "opml-import-html", ox); free(h); }
			}
			char * u = mmd_string_update_metavalue_for_key(doc.c_str(), "title", "caf\xc3\xa9"); if (u) { require_valid(std::string(u), "update-metavalue", doc); free(u); }
		}
	}
	FZ_END(); fz_pool_end(); cap_end();
	if (adjacent) {
		if (!nontrivial) { nontrivial = new std::unordered_set<uint64_t>(); atexit(dump_counts); }
		uint64_t h = 1469598103934665603ULL; for (size_t i = 0; i < size; i++) { h ^= data[i]; h *= 1099511628211ULL; } nontrivial->insert(h);
	}
	return 0;
}
