// mmdw: persistent worker.  Reads length-prefixed requests on stdin, performs ONE library call (or a tiny
// scripted group) per request, answers on stdout.  Used by the Hypothesis-driven checks (engine E3).
//
//   request / response := u32 nfields, then per field: u32 len, bytes      (little endian)
//   response field 0 is a status: "ok", "null" (API returned NULL), "exit:<code>" (library called exit()), "err:<msg>"
//   the last response field is whatever the call wrote to fd 2.
#include "fz_common.h"
#include <vector>
#include <map>
#include <string>
#include <errno.h>

typedef std::vector<std::string> Fields;

static bool rd(void * p, size_t n) { char * c = (char *)p; while (n) { ssize_t r = read(0, c, n); if (r <= 0) return false; c += r; n -= r; } return true; }
static void wr(const void * p, size_t n) { const char * c = (const char *)p; while (n) { ssize_t r = write(1, c, n); if (r <= 0) _exit(3); c += r; n -= r; } }
static bool get(Fields & f) {
	uint32_t n; if (!rd(&n, 4)) return false; f.clear();
	for (uint32_t i = 0; i < n; i++) { uint32_t l; if (!rd(&l, 4)) return false; std::string s(l, '\0'); if (l && !rd(&s[0], l)) return false; f.push_back(s); }
	return true;
}
static void put(const Fields & f) {
	std::string buf; uint32_t n = f.size(); buf.append((char *)&n, 4);
	for (auto & s : f) { uint32_t l = s.size(); buf.append((char *)&l, 4); buf += s; }
	wr(buf.data(), buf.size());
}

static std::map<int, mmd_engine *> engines; static int next_id = 1;
static int pool_depth = 0;   // explicit pool inits issued by the client

static long L(const std::string & s) { return strtol(s.c_str(), 0, 0); }
static unsigned long ULONG(const std::string & s) { return strtoul(s.c_str(), 0, 0); }
static std::string S(long v) { return std::to_string(v); }
static const char * dirarg(const std::string & d) { return d.empty() ? NULL : d.c_str(); }
static std::string slurp(const std::string & path) { FILE * f = fopen(path.c_str(), "rb"); if (!f) return std::string("\x01NOFILE"); std::string s; char b[65536]; size_t n; while ((n = fread(b, 1, sizeof b, f)) > 0) s.append(b, n); fclose(f); return s; }
static std::string manifest_str(struct stack * m) { std::string o; if (!m) return o; for (size_t i = 0; i < m->size; i++) { o += (const char *)stack_peek_index(m, i); o += "\n"; } while (m->size) free(stack_pop(m)); stack_free(m); return o; }

static void handle(const Fields & q, Fields & a) {
	const std::string & op = q[0];
	a.push_back("ok");
	if (op == "ping") { a.push_back("pong"); return; }
	if (op == "pool") {
#ifdef kUseObjectPool
		if (q[1] == "init") { token_pool_init(); pool_depth++; }
		else if (q[1] == "drain") { token_pool_drain(); pool_depth--; }
		else if (q[1] == "free") { token_pool_free(); }
#endif
		return;
	}
	if (op == "srand") { srand((unsigned)ULONG(q[1])); return; }
	if (op == "convert") {
		// api fmt ext lang dir src [path]
		const std::string & api = q[1]; short fmt = (short)L(q[2]); unsigned long ext = ULONG(q[3]); short lang = (short)L(q[4]);
		const char * dir = dirarg(q[5]); const std::string & src = q[6]; std::string path = q.size() > 7 ? q[7] : "";
		std::string out; bool isnull = false; std::string after = src;
		if (api == "s") { char * r = mmd_string_convert(src.c_str(), ext, fmt, lang); if (r) { out = r; free(r); } else isnull = true; }
		else if (api == "sd") { DString * r = mmd_string_convert_to_data(src.c_str(), ext, fmt, lang, dir); if (r) { out.assign(r->str, r->currentStringLength); d_string_free(r, true); } else isnull = true; }
		else if (api == "sf") { unlink(path.c_str()); mmd_string_convert_to_file(src.c_str(), ext, fmt, lang, dir, path.c_str()); out = slurp(path); }
		else if (api == "d" || api == "dd" || api == "df") {
			DString * d = d_string_new(""); d_string_append_c_array(d, src.data(), src.size());
			if (api == "d") { char * r = mmd_d_string_convert(d, ext, fmt, lang); if (r) { out = r; free(r); } else isnull = true; }
			else if (api == "dd") { DString * r = mmd_d_string_convert_to_data(d, ext, fmt, lang, dir); if (r) { out.assign(r->str, r->currentStringLength); d_string_free(r, true); } else isnull = true; }
			else { unlink(path.c_str()); mmd_d_string_convert_to_file(d, ext, fmt, lang, dir, path.c_str()); out = slurp(path); }
			after.assign(d->str, d->currentStringLength);
			if (strlen(d->str) != d->currentStringLength && !(ext & EXT_PARSE_ITMZ)) after += "\x01LENGTH-MISMATCH";
			d_string_free(d, true);
		} else if (api == "e" || api == "ed" || api == "ef") {
			mmd_engine * e = mmd_engine_create_with_string(src.c_str(), ext); mmd_engine_set_language(e, lang);
			if (api == "e") { char * r = mmd_engine_convert(e, fmt); if (r) { out = r; free(r); } else isnull = true; }
			else if (api == "ed") { DString * r = mmd_engine_convert_to_data(e, fmt, dir); if (r) { out.assign(r->str, r->currentStringLength); d_string_free(r, true); } else isnull = true; }
			else { unlink(path.c_str()); mmd_engine_convert_to_file(e, fmt, dir, path.c_str()); out = slurp(path); }
			DString * d = mmd_engine_d_string(e); after.assign(d->str, d->currentStringLength);
			mmd_engine_free(e, true);
		} else { a[0] = "err:api"; return; }
		if (isnull) a[0] = "null";
		a.push_back(out); a.push_back(after == src ? "1" : "0"); a.push_back(after == src ? "" : after);
		return;
	}
	if (op == "meta") {
		// family op src key value vnull
		const std::string & fam = q[1], & mop = q[2], & src = q[3], & key = q[4], & val = q[5]; bool vnull = q[6] == "1";
		const char * v = vnull ? NULL : val.c_str();
		std::string buf = src; buf.push_back('\0');
		size_t end = 0; char * r = NULL; bool has = false; std::string out; bool isnull = false;
		if (fam == "s") {
			if (mop == "has") { has = mmd_string_has_metadata(&buf[0], &end); }
			else if (mop == "keys") { r = mmd_string_metadata_keys(&buf[0]); if (r) { out = r; free(r); } else isnull = true; }
			else if (mop == "value") { r = mmd_string_metavalue_for_key(&buf[0], key.c_str()); if (r) { out = r; free(r); } else isnull = true; }
			else { r = mmd_string_update_metavalue_for_key(src.c_str(), key.c_str(), v); if (r) { out = r; free(r); } else isnull = true; }
		} else if (fam == "d") {
			DString * d = d_string_new(src.c_str());
			if (mop == "has") { has = mmd_d_string_has_metadata(d, &end); }
			else if (mop == "keys") { r = mmd_d_string_metadata_keys(d); if (r) { out = r; free(r); } else isnull = true; }
			else if (mop == "value") { r = mmd_d_string_metavalue_for_key(d, key.c_str()); if (r) { out = r; free(r); } else isnull = true; }
			else { mmd_d_string_update_metavalue_for_key(d, key.c_str(), v); out.assign(d->str, d->currentStringLength); if (strlen(d->str) != d->currentStringLength) out += "\x01LENGTH-MISMATCH"; }
			d_string_free(d, true);
		} else {
			mmd_engine * e = mmd_engine_create_with_string(src.c_str(), 0);
			if (mop == "has") { has = mmd_engine_has_metadata(e, &end); }
			else if (mop == "keys") { r = mmd_engine_metadata_keys(e); if (r) { out = r; free(r); } else isnull = true; }
			else if (mop == "value") { r = mmd_engine_metavalue_for_key(e, key.c_str()); if (r) { out = r; } else isnull = true; }
			else { mmd_engine_update_metavalue_for_key(e, key.c_str(), v); DString * d = mmd_engine_d_string(e); out.assign(d->str, d->currentStringLength); }
			mmd_engine_free(e, true);
		}
		if (isnull) a[0] = "null";
		if (mop == "has") { a.push_back(has ? "1" : "0"); a.push_back(S(end)); } else a.push_back(out);
		return;
	}
	if (op == "critic") {
		// accept|reject start len src      (len < 0: whole string)
		DString * d = d_string_new(q[4].c_str()); long st = L(q[2]), ln = L(q[3]);
		if (q[1] == "accept") { if (ln < 0) mmd_critic_markup_accept(d); else mmd_critic_markup_accept_range(d, st, ln); }
		else { if (ln < 0) mmd_critic_markup_reject(d); else mmd_critic_markup_reject_range(d, st, ln); }
		std::string out(d->str, d->currentStringLength); if (strlen(d->str) != d->currentStringLength) out += "\x01LENGTH-MISMATCH";
		d_string_free(d, true); a.push_back(out); return;
	}
	if (op == "transclude") {
		// fmt search_path source_path src
		DString * d = d_string_new(q[4].c_str()); struct stack * m = stack_new(0);
		mmd_transclude_source(d, dirarg(q[2]), q[3].c_str(), (short)L(q[1]), NULL, m);      // empty search path = NULL
		std::string out(d->str, d->currentStringLength); if (strlen(d->str) != d->currentStringLength) out += "\x01LENGTH-MISMATCH";
		d_string_free(d, true); a.push_back(out); a.push_back(manifest_str(m)); return;
	}
	if (op == "manifest") {
		// family search_path source_path src
		// answers: manifest, manifest of a second call on the same object, the source text as the object holds it afterwards
		struct stack * m = NULL, * m2 = NULL; std::string after = q[4];
		if (q[1] == "s") { m = mmd_string_transclusion_manifest(q[4].c_str(), dirarg(q[2]), q[3].c_str()); m2 = mmd_string_transclusion_manifest(q[4].c_str(), dirarg(q[2]), q[3].c_str()); }
		else if (q[1] == "d") { DString * d = d_string_new(q[4].c_str()); m = mmd_d_string_transclusion_manifest(d, dirarg(q[2]), q[3].c_str());
		                        after.assign(d->str, d->currentStringLength); m2 = mmd_d_string_transclusion_manifest(d, dirarg(q[2]), q[3].c_str()); d_string_free(d, true); }
		else { DString * d = d_string_new(q[4].c_str()); mmd_engine * e = mmd_engine_create_with_dstring(d, 0); m = mmd_engine_transclusion_manifest(e, dirarg(q[2]), q[3].c_str());
		       after.assign(d->str, d->currentStringLength); m2 = mmd_engine_transclusion_manifest(e, dirarg(q[2]), q[3].c_str()); mmd_engine_free(e, true); }
		a.push_back(manifest_str(m)); a.push_back(manifest_str(m2)); a.push_back(after); return;
	}
	if (op == "opml2text" || op == "itmz2text") {
		// family src
		bool opml = op == "opml2text"; DString * r = NULL; std::string after = q[2];
		if (q[1] == "s") { r = opml ? mmd_string_convert_opml_to_text(q[2].c_str()) : mmd_string_convert_itmz_to_text(q[2].c_str()); }
		else { DString * d = d_string_new(""); d_string_append_c_array(d, q[2].data(), q[2].size());
		       r = opml ? mmd_d_string_convert_opml_to_text(d) : mmd_d_string_convert_itmz_to_text(d);
		       after.assign(d->str, d->currentStringLength); d_string_free(d, true); }
		if (r) { a.push_back(std::string(r->str, r->currentStringLength)); d_string_free(r, true); } else { a[0] = "null"; a.push_back(""); }
		a.push_back(after == q[2] ? "1" : "0"); return;
	}
	// ---- long-lived engines -------------------------------------------------------------------------------------
	if (op == "enew") { mmd_engine * e = mmd_engine_create_with_string(q[2].c_str(), ULONG(q[1])); engines[next_id] = e; a.push_back(S(next_id++)); return; }
	if (op[0] == 'e' && q.size() > 1 && engines.count((int)L(q[1]))) {
		mmd_engine * e = engines[(int)L(q[1])];
		if (op == "efree") { mmd_engine_free(e, true); engines.erase((int)L(q[1])); return; }
		if (op == "elang") { mmd_engine_set_language(e, (short)L(q[2])); return; }
		if (op == "econv") { // id api fmt dir
			std::string out; bool isnull = false;
			if (q[2] == "e") { char * r = mmd_engine_convert(e, (short)L(q[3])); if (r) { out = r; free(r); } else isnull = true; }
			else { DString * r = mmd_engine_convert_to_data(e, (short)L(q[3]), dirarg(q[4])); if (r) { out.assign(r->str, r->currentStringLength); d_string_free(r, true); } else isnull = true; }
			if (isnull) a[0] = "null"; a.push_back(out);
			DString * d = mmd_engine_d_string(e); a.push_back(std::string(d->str, d->currentStringLength)); return;
		}
		if (op == "eexport") { // id fmt   : parse once (if needed) and export without re-parsing
			if (!mmd_engine_root(e)) mmd_engine_parse_string(e);
			DString * o = d_string_new(""); mmd_engine_export_token_tree(o, e, (short)L(q[2])); a.push_back(std::string(o->str, o->currentStringLength)); d_string_free(o, true); return;
		}
		if (op == "eopml2text") { // id : the engine keeps its OPML source, the imported text is returned
			DString * r = mmd_engine_convert_opml_to_text(e);
			if (r) { a.push_back(std::string(r->str, r->currentStringLength)); d_string_free(r, true); } else { a[0] = "null"; a.push_back(""); }
			DString * d = mmd_engine_d_string(e); a.push_back(std::string(d->str, d->currentStringLength)); return; }
		if (op == "esub") { // id start len : parse a sub-range of the source (what an editor does for a changed region); no output
			DString * d = mmd_engine_d_string(e); size_t n = d->currentStringLength; size_t st_ = n ? (size_t)L(q[2]) % (n + 1) : 0; size_t ln = (n - st_) ? (size_t)L(q[3]) % (n - st_ + 1) : 0;
			mmd_engine_parse_substring(e, st_, ln); a.push_back(S((long)st_)); return; }
		if (op == "ehas") { size_t end = 0; bool h = mmd_engine_has_metadata(e, &end); a.push_back(h ? "1" : "0"); a.push_back(S(end)); return; }
		if (op == "ekeys") { char * r = mmd_engine_metadata_keys(e); if (r) { a.push_back(r); free(r); } else { a[0] = "null"; a.push_back(""); } return; }
		if (op == "evalue") { char * r = mmd_engine_metavalue_for_key(e, q[2].c_str()); if (r) a.push_back(r); else { a[0] = "null"; a.push_back(""); } return; }
		if (op == "eupdate") { mmd_engine_update_metavalue_for_key(e, q[2].c_str(), q[4] == "1" ? NULL : q[3].c_str()); DString * d = mmd_engine_d_string(e); a.push_back(std::string(d->str, d->currentStringLength)); return; }
		if (op == "esrc") { // replace the source in place through the engine's DString
			DString * d = mmd_engine_d_string(e); d_string_erase(d, 0, -1); d_string_append_c_array(d, q[2].data(), q[2].size()); return; }
		if (op == "esource") { DString * d = mmd_engine_d_string(e); a.push_back(std::string(d->str, d->currentStringLength)); return; }
	}
	a[0] = "err:unknown-op:" + op;
}

int main() {
	cap_init();
	Fields q, a;
	while (get(q)) {
		a.clear();
		if (q.empty()) { a.push_back("err:empty"); put(a); continue; }
		cap_begin();
		bool bracket = pool_depth == 0 && q[0] != "pool";
		if (bracket) fz_pool_begin();
		if (FZ_GUARDED()) { handle(q, a); }
		else { a.clear(); a.push_back("exit:" + std::to_string((int)fz_exit_code)); }
		FZ_END();
		if (bracket) fz_pool_end();
		a.push_back(cap_end());
		put(a);
	}
	return 0;
}
