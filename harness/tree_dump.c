// tree_dump <file> [ext] [export-format]: prints the token tree after parsing (and after export when a format is given),
// flagging sibling-link and order inconsistencies (debug helper)
#include <stdio.h>
#include <stdlib.h>
#include "libMultiMarkdown.h"
#include "d_string.h"
#include "token.h"
static void walk(token * t, int d, token * parent) {
	token * prev = NULL;
	while (t) {
		printf("%*s%d [%zu,%zu)%s", d * 2, "", t->type, t->start, t->start + t->len, t->mate ? " m" : "");
		if (parent && t->prev != prev) printf("   <== BAD prev (%p, expected %p)", (void *)t->prev, (void *)prev);
		if (prev && t->start < prev->start) printf("   <== BAD order");
		printf("\n");
		if (t->child) walk(t->child, d + 1, t);
		prev = t; t = t->next;
	}
}
int main(int argc, char ** argv) {
	DString * s = scan_file(argv[1]); unsigned long ext = argc > 2 ? strtoul(argv[2], 0, 0) : (EXT_SMART | EXT_NOTES | EXT_CRITIC);
#ifdef kUseObjectPool
	token_pool_init();
#endif
	mmd_engine * e = mmd_engine_create_with_dstring(s, ext);
	mmd_engine_parse_string(e);
	for (int i = 3; i < argc; i++) { DString * o = d_string_new(""); mmd_engine_export_token_tree(o, e, atoi(argv[i])); }
	walk(mmd_engine_root(e), 0, NULL);
	return 0;
}
