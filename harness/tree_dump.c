// tree_dump <file> [ext]: prints the token tree after parsing (debug helper)
#include <stdio.h>
#include <stdlib.h>
#include "libMultiMarkdown.h"
#include "d_string.h"
#include "token.h"
static void walk(token * t, int d) {
	while (t) { printf("%*s%d [%zu,%zu)%s\n", d * 2, "", t->type, t->start, t->start + t->len, t->mate ? " m" : ""); if (t->child) walk(t->child, d + 1); t = t->next; }
}
int main(int argc, char ** argv) {
	DString * s = scan_file(argv[1]); unsigned long ext = argc > 2 ? strtoul(argv[2], 0, 0) : (EXT_SMART | EXT_NOTES | EXT_CRITIC);
#ifdef kUseObjectPool
	token_pool_init();
#endif
	mmd_engine * e = mmd_engine_create_with_dstring(s, ext);
	mmd_engine_parse_string(e);
	walk(mmd_engine_root(e), 0);
	return 0;
}
