// C01: crash-free / memory-safe handling of arbitrary input at every text-accepting entry point.
// One binary, FZ_MODE selects the entry-point family:
//   convert | meta | critic | opml | itmz | transclude
// The oracle is "the call returns and no sanitizer fires".  exit() from the library is intercepted and only
// counted (it is C02's business).
#include <fuzzer/FuzzedDataProvider.h>
#include "fz_common.h"
extern "C" {
#include "miniz.h"
}

static int mode = -1;
static std::string fixture;

static void init() {
	if (mode >= 0) return;
	const char * m = getenv("FZ_MODE"); if (!m) m = "convert";
	const char * names[] = {"convert", "meta", "critic", "opml", "itmz", "transclude"};
	mode = 0; for (int i = 0; i < 6; i++) if (!strcmp(m, names[i])) mode = i;
	const char * f = getenv("FZ_FIXTURE"); fixture = f ? f : "";
	cap_init();
}

static void free_manifest(struct stack * s) {
	if (!s) return;
	while (s->size) free(stack_pop(s));
	stack_free(s);
}

static void do_convert(FuzzedDataProvider & fdp) {
	int fmt = fdp.ConsumeIntegralInRange<int>(0, 12);
	unsigned long ext = fdp.ConsumeIntegral<uint32_t>() & 0x1FFFF;
	int lang = fdp.ConsumeIntegralInRange<int>(0, 6);
	int api = fdp.ConsumeIntegralInRange<int>(0, 6);
	bool usedir = fdp.ConsumeBool() && !fixture.empty();
	uint16_t a = fdp.ConsumeIntegral<uint16_t>(), b = fdp.ConsumeIntegral<uint16_t>();
	std::string doc = fz_cstr(fdp.ConsumeRemainingBytesAsString());
	const char * dir = usedir ? fixture.c_str() : NULL;
	if (getenv("FZ_DUMP")) { dprintf(fz_real_err, "DUMP fmt=%d ext=0x%lx lang=%d api=%d dir=%d a=%u b=%u\n<<<%s>>>\n", fmt, ext, lang, api, (int)usedir, a, b, doc.c_str()); }
	if (FZ_GUARDED()) {
		switch (api) {
		case 0: { char * r = mmd_string_convert(doc.c_str(), ext, fmt, lang); free(r); } break;
		case 1: { DString * d = d_string_new(doc.c_str()); char * r = mmd_d_string_convert(d, ext, fmt, lang); free(r); d_string_free(d, true); } break;
		case 2: { DString * r = mmd_string_convert_to_data(doc.c_str(), ext, fmt, lang, dir); if (r) d_string_free(r, true); } break;
		case 3: { DString * d = d_string_new(doc.c_str()); DString * r = mmd_d_string_convert_to_data(d, ext, fmt, lang, dir); if (r) d_string_free(r, true); d_string_free(d, true); } break;
		case 4: { mmd_engine * e = mmd_engine_create_with_string(doc.c_str(), ext); mmd_engine_set_language(e, lang);
		          char * r = mmd_engine_convert(e, fmt); free(r);
		          DString * r2 = mmd_engine_convert_to_data(e, (fmt + 5) % 13, dir); if (r2) d_string_free(r2, true);
		          mmd_engine_free(e, true); } break;
		case 5: { // explicit parse of a sub-range, then export through every writer
			mmd_engine * e = mmd_engine_create_with_string(doc.c_str(), ext & ~(unsigned long)(EXT_PARSE_OPML | EXT_PARSE_ITMZ)); mmd_engine_set_language(e, lang);
			size_t n = doc.size(); size_t s = n ? a % (n + 1) : 0; size_t l = (n - s) ? b % (n - s + 1) : 0;
			mmd_engine_parse_substring(e, s, l);
			DString * out = d_string_new(""); mmd_engine_export_token_tree(out, e, fmt); d_string_free(out, true);
			mmd_engine_free(e, true); } break;
		default: { // reused engine: several formats from one parse + metadata queries in between
			mmd_engine * e = mmd_engine_create_with_string(doc.c_str(), ext); mmd_engine_set_language(e, lang);
			char * r = mmd_engine_convert(e, fmt); free(r);
			size_t end; mmd_engine_has_metadata(e, &end); char * k = mmd_engine_metadata_keys(e); free(k);
			r = mmd_engine_convert(e, (fmt + 2) % 13); free(r);
			mmd_engine_free(e, true); } break;
		}
	}
	FZ_END();
}

static void do_meta(FuzzedDataProvider & fdp) {
	int family = fdp.ConsumeIntegralInRange<int>(0, 2);
	int op = fdp.ConsumeIntegralInRange<int>(0, 4);
	size_t kl = fdp.ConsumeIntegralInRange<size_t>(0, 40), vl = fdp.ConsumeIntegralInRange<size_t>(0, 80);
	bool vnull = fdp.ConsumeIntegralInRange<int>(0, 9) == 0;
	unsigned long ext = fdp.ConsumeIntegral<uint32_t>() & 0x1FFFF & ~(unsigned long)(EXT_PARSE_OPML | EXT_PARSE_ITMZ);
	std::string key = fz_cstr(fdp.ConsumeBytesAsString(kl)), val = fz_cstr(fdp.ConsumeBytesAsString(vl));
	std::string doc = fz_cstr(fdp.ConsumeRemainingBytesAsString());
	const char * v = vnull ? NULL : val.c_str();
	if (FZ_GUARDED()) {
		size_t end = 0; char * r = NULL;
		std::string buf = doc; // mutable copy for the char* APIs
		if (family == 0) {
			switch (op) {
			case 0: mmd_string_has_metadata(&buf[0], &end); break;
			case 1: r = mmd_string_metadata_keys(&buf[0]); break;
			case 2: r = mmd_string_metavalue_for_key(&buf[0], key.c_str()); break;
			default: r = mmd_string_update_metavalue_for_key(doc.c_str(), key.c_str(), v); break;
			}
			free(r);
		} else if (family == 1) {
			DString * d = d_string_new(doc.c_str());
			switch (op) {
			case 0: mmd_d_string_has_metadata(d, &end); break;
			case 1: r = mmd_d_string_metadata_keys(d); break;
			case 2: r = mmd_d_string_metavalue_for_key(d, key.c_str()); break;
			default: mmd_d_string_update_metavalue_for_key(d, key.c_str(), v); r = mmd_d_string_metavalue_for_key(d, key.c_str()); break;
			}
			free(r); d_string_free(d, true);
		} else {
			mmd_engine * e = mmd_engine_create_with_string(doc.c_str(), ext);
			switch (op) {
			case 0: mmd_engine_has_metadata(e, &end); break;
			case 1: r = mmd_engine_metadata_keys(e); free(r); break;
			case 2: r = mmd_engine_metavalue_for_key(e, key.c_str()); /* owned by the engine */ break;
			default:
				mmd_engine_update_metavalue_for_key(e, key.c_str(), v);
				mmd_engine_update_metavalue_for_key(e, val.c_str(), key.c_str());
				r = mmd_engine_convert(e, FORMAT_HTML); free(r);
				break;
			}
			mmd_engine_free(e, true);
		}
	}
	FZ_END();
}

static void do_critic(FuzzedDataProvider & fdp) {
	int op = fdp.ConsumeIntegralInRange<int>(0, 3);
	uint16_t a = fdp.ConsumeIntegral<uint16_t>(), b = fdp.ConsumeIntegral<uint16_t>();
	std::string doc = fz_cstr(fdp.ConsumeRemainingBytesAsString());
	size_t n = doc.size(); size_t s = n ? a % (n + 1) : 0; size_t l = (n - s) ? b % (n - s + 1) : 0;
	if (FZ_GUARDED()) {
		DString * d = d_string_new(doc.c_str());
		switch (op) {
		case 0: mmd_critic_markup_accept(d); break;
		case 1: mmd_critic_markup_reject(d); break;
		case 2: mmd_critic_markup_accept_range(d, s, l); break;
		default: mmd_critic_markup_reject_range(d, s, l); break;
		}
		if (strlen(d->str) != d->currentStringLength) fz_oracle_fail("C01", "critic:length-inconsistent", doc);
		d_string_free(d, true);
	}
	FZ_END();
}

static void do_opml(FuzzedDataProvider & fdp) {
	int api = fdp.ConsumeIntegralInRange<int>(0, 4);
	int fmt = fdp.ConsumeIntegralInRange<int>(0, 12);
	unsigned long ext = (fdp.ConsumeIntegral<uint32_t>() & 0x1FFFF & ~(unsigned long)EXT_PARSE_ITMZ) | EXT_PARSE_OPML;
	std::string doc = fz_cstr(fdp.ConsumeRemainingBytesAsString());
	if (FZ_GUARDED()) {
		switch (api) {
		case 0: { DString * r = mmd_string_convert_opml_to_text(doc.c_str()); if (r) d_string_free(r, true); } break;
		case 1: { DString * d = d_string_new(doc.c_str()); DString * r = mmd_d_string_convert_opml_to_text(d); if (r) d_string_free(r, true); d_string_free(d, true); } break;
		case 2: { char * r = mmd_string_convert(doc.c_str(), ext, fmt, 0); free(r); } break;
		case 4: { // one engine: import + convert, then edit the imported text through the engine, convert again (other format), release
			mmd_engine * e = mmd_engine_create_with_string(doc.c_str(), ext);
			DString * r = mmd_engine_convert_to_data(e, fmt, NULL); if (r) d_string_free(r, true);
			// (the imported text is grown past the size of the OPML source in two steps: whatever capacity the engine recorded for its
			// replaced buffer, the text crosses it)
			std::string val(1500, 'v'); mmd_engine_update_metavalue_for_key(e, "imported key", val.c_str());
			std::string val2(doc.size() + 16, 'w'); mmd_engine_update_metavalue_for_key(e, "second key", val2.c_str());
			mmd_engine_update_metavalue_for_key(e, "third key", val2.c_str());
			char * k = mmd_engine_metadata_keys(e); free(k);
			r = mmd_engine_convert_to_data(e, (fmt + 11) % 13, NULL); if (r) d_string_free(r, true);
			mmd_engine_free(e, true); } break;
		default: { DString * d = d_string_new(doc.c_str()); DString * r = mmd_d_string_convert_to_data(d, ext, fmt, 0, NULL); if (r) d_string_free(r, true);
		           // the documented in-place replacement leaves a usable DString behind
		           d_string_append(d, "x"); if (strlen(d->str) != d->currentStringLength) fz_oracle_fail("C01", "opml:source-dstring-inconsistent", doc);
		           d_string_free(d, true); } break;
		}
	}
	FZ_END();
}

static std::string zip_wrap(const std::string & xml, const char * name) {
	mz_zip_archive z; memset(&z, 0, sizeof z);
	if (!mz_zip_writer_init_heap(&z, 0, 1024)) return std::string();
	mz_zip_writer_add_mem(&z, name, xml.data(), xml.size(), MZ_BEST_SPEED);
	void * p = NULL; size_t n = 0; std::string out;
	if (mz_zip_writer_finalize_heap_archive(&z, &p, &n)) { out.assign((char *)p, n); free(p); }
	mz_zip_writer_end(&z);
	return out;
}

static void do_itmz(FuzzedDataProvider & fdp) {
	int api = fdp.ConsumeIntegralInRange<int>(0, 5);
	int fmt = fdp.ConsumeIntegralInRange<int>(0, 12);
	std::string raw = fdp.ConsumeRemainingBytesAsString();
	std::string arc = (api & 1) ? zip_wrap(raw, "mapdata.xml") : raw;
	if (FZ_GUARDED()) {
		DString * d = d_string_new(""); d_string_append_c_array(d, arc.data(), arc.size());
		if (api < 2) { DString * r = mmd_d_string_convert_itmz_to_text(d); if (r) d_string_free(r, true); d_string_free(d, true); }
		else if (api < 4) { DString * r = mmd_d_string_convert_to_data(d, EXT_PARSE_ITMZ | EXT_SMART | EXT_NOTES | EXT_CRITIC, fmt, 0, NULL); if (r) d_string_free(r, true); d_string_free(d, true); }
		else { // one engine: import + convert, edit the imported text, convert again, release
			mmd_engine * e = mmd_engine_create_with_dstring(d, EXT_PARSE_ITMZ | EXT_SMART | EXT_NOTES | EXT_CRITIC);
			DString * r = mmd_engine_convert_to_data(e, fmt, NULL); if (r) d_string_free(r, true);
			std::string val(1500, 'v'); mmd_engine_update_metavalue_for_key(e, "imported key", val.c_str());
			std::string val2(raw.size() + 16, 'w'); mmd_engine_update_metavalue_for_key(e, "second key", val2.c_str());
			mmd_engine_update_metavalue_for_key(e, "third key", val2.c_str());
			r = mmd_engine_convert_to_data(e, (fmt + 11) % 13, NULL); if (r) d_string_free(r, true);
			mmd_engine_free(e, true); }
	}
	FZ_END();
}

static void do_transclude(FuzzedDataProvider & fdp) {
	int api = fdp.ConsumeIntegralInRange<int>(0, 3);
	int fmt = fdp.ConsumeIntegralInRange<int>(0, 12);
	int sp = fdp.ConsumeIntegralInRange<int>(0, 2);
	std::string doc = fz_cstr(fdp.ConsumeRemainingBytesAsString());
	if (fixture.empty()) return;
	std::string dir = fixture + "/tr"; std::string top = dir + "/top.txt";
	std::string search = sp == 0 ? dir : (sp == 1 ? dir + "/" : dir + "/sub");
	if (FZ_GUARDED()) {
		switch (api) {
		case 0: { DString * d = d_string_new(doc.c_str()); mmd_transclude_source(d, search.c_str(), top.c_str(), fmt, NULL, NULL);
		          if (strlen(d->str) != d->currentStringLength) fz_oracle_fail("C01", "transclude:length-inconsistent", doc);
		          d_string_free(d, true); } break;
		case 1: free_manifest(mmd_string_transclusion_manifest(doc.c_str(), search.c_str(), top.c_str())); break;
		case 2: { DString * d = d_string_new(doc.c_str()); free_manifest(mmd_d_string_transclusion_manifest(d, search.c_str(), top.c_str())); d_string_free(d, true); } break;
		default: { DString * d = d_string_new(doc.c_str()); struct stack * m = stack_new(0); mmd_transclude_source(d, search.c_str(), top.c_str(), fmt, NULL, m); free_manifest(m);
		           char * r = mmd_d_string_convert(d, EXT_SMART | EXT_NOTES | EXT_CRITIC | EXT_TRANSCLUDE, fmt, 0); free(r); d_string_free(d, true); } break;
		}
	}
	FZ_END();
}

extern "C" int LLVMFuzzerTestOneInput(const uint8_t * data, size_t size) {
	init();
	fz_reset_globals();
	FuzzedDataProvider fdp(data, size);
	cap_begin();
	fz_pool_begin();
	switch (mode) {
	case 0: do_convert(fdp); break;
	case 1: do_meta(fdp); break;
	case 2: do_critic(fdp); break;
	case 3: do_opml(fdp); break;
	case 4: do_itmz(fdp); break;
	default: do_transclude(fdp); break;
	}
	fz_pool_end();
	cap_end();
	return 0;
}
