"""Reference HTML renderer for the G-doc AST (C03).

Written from the documentation (Gruber's syntax description shipped as tests/MMD6Tests/Markdown Syntax.text, README "Differences", the
QuickStart guide) and, for MultiMarkdown-specific shapes (heading ids, <figure>, footnote markup, table colgroup / alignment styles, <dl>,
math spans, blank-line layout between blocks), from the stored expected files tests/MMD6Tests/*.html -- never from running the code under
test.  Because the model only ever sees ASTs it generated itself it needs no Markdown parser.
"""


def esc(s):
    return s.replace('&', '&amp;').replace('<', '&lt;').replace('>', '&gt;').replace('"', '&quot;')


SMART_ON = {'dq': '&#8220;quoted words&#8221;', 'sq': '&#8216;single words&#8217;', 'apos': 'it&#8217;s', 'en': 'pages 3&#8211;4', 'em': 'wait&#8212;what', 'ell': 'and so&#8230;'}
SMART_OFF = {'dq': '&quot;quoted words&quot;', 'sq': "'single words'", 'apos': "it's", 'en': 'pages 3--4', 'em': 'wait---what', 'ell': 'and so...'}


class Ctx:
    def __init__(self, smart=True, compat=False, notes=None, nolabels=False):
        self.smart, self.compat, self.nolabels = smart, compat, nolabels
        self.used = []                 # footnote ids in order of first use
        self.notes = dict(notes or [])


def label(src):
    """Heading id: the source text of the heading with everything but letters, digits and . _ - : dropped, lower-cased."""
    return ''.join(c.lower() for c in src if (c.isascii() and c.isalnum()) or c in '._-:' or not c.isascii())


def inl(xs, c):
    parts = []
    for x in xs:
        k = x[0]
        if k == 't':
            parts.append(esc(x[1]))
        elif k == 'em':
            parts.append('<em>' + inl(x[2], c) + '</em>')
        elif k == 'st':
            parts.append('<strong>' + inl(x[2], c) + '</strong>')
        elif k == 'code':
            parts.append('<code>' + esc(x[1]) + '</code>')
        elif k == 'link':
            parts.append('<a href="' + esc(x[2]) + '"' + (' title="' + esc(x[3]) + '"' if x[3] else '') + '>' + inl(x[1], c) + '</a>')
        elif k == 'reflink':
            from pbt import gdoc
            rid, url, title, q = gdoc.ref_def(x[3])
            lab = x[3] if len(x) < 5 else (x[3], x[3].upper(), x[3].lower())[x[4]]
            text = inl(x[2], c) if x[1] == 'full' else esc(lab)
            parts.append('<a href="' + esc(url) + '"' + (' title="' + esc(title) + '"' if title else '') + '>' + text + '</a>')
        elif k == 'auto':
            parts.append('<a href="' + esc(x[1]) + '">' + esc(x[1]) + '</a>')
        elif k == 'img':
            parts.append('<img src="' + esc(x[2]) + '" alt="' + esc(x[1]) + '"' + (' title="' + esc(x[3]) + '"' if x[3] else '') + ' />')
        elif k == 'esc':
            parts.append(esc(x[1]))
        elif k == 'ent':
            parts.append(x[1])
        elif k == 'bare':
            parts.append(esc(x[1]))
        elif k == 'smart':
            parts.append((SMART_ON if c.smart else SMART_OFF)[x[1]])
        elif k == 'fnref':
            if x[1] not in c.used:
                c.used.append(x[1])
                n = len(c.used)
                parts.append('note<a href="#fn:%d" id="fnref:%d" title="see footnote" class="footnote"><sup>%d</sup></a>' % (n, n, n))
            else:
                n = c.used.index(x[1]) + 1
                parts.append('note<a href="#fn:%d" title="see footnote" class="footnote"><sup>%d</sup></a>' % (n, n))
        elif k == 'imath':
            parts.append('<span class="math">\\(' + esc_math(x[2]) + '\\)</span>')
        elif k in ('sup', 'sub'):
            parts.append(esc(x[1]) + '<%s>' % k + esc(x[2]) + '</%s>' % k)
        else:
            raise ValueError(k)
    return ' '.join(parts)


def esc_math(m):
    return m.replace('&', '&amp;').replace('<', '&lt;')


def heading_source(xs):
    from pbt import gdoc
    return gdoc.ser_inl(xs)


AL_STYLE = {'n': '', 'l': ' style="text-align:left;"', 'r': ' style="text-align:right;"', 'c': ' style="text-align:center;"'}
COL = {'n': '<col />', 'l': '<col style="text-align:left;"/>', 'r': '<col style="text-align:right;"/>', 'c': '<col style="text-align:center;"/>'}


def block(b, c, tight=False):
    k = b[0]
    if k == 'para':
        sep = {'nl': '\n', '2sp': '<br />\n', 'bs': '<br />\n'}[b[2]]
        inner = sep.join(inl(l, c) for l in b[1])
        return inner if tight else '<p>' + inner + '</p>'
    if k in ('atx', 'setext'):
        ident = '' if (c.compat or c.nolabels) else ' id="%s"' % label(heading_source(b[2]))
        return '<h%d%s>' % (b[1], ident) + inl(b[2], c) + '</h%d>' % b[1]
    if k == 'hr':
        return '<hr />'
    if k == 'fence':
        return '<pre><code' + (' class="%s"' % esc(b[2]) if b[2] else '') + '>' + ''.join(esc(l) + '\n' for l in b[3]) + '</code></pre>'
    if k == 'icode':
        return '<pre><code>' + '\n'.join(esc(l) for l in b[2]) + '\n</code></pre>'
    if k == 'quote':
        return '<blockquote>\n' + blocks(b[1], c) + '\n</blockquote>'
    if k == 'list':
        tag = 'ul' if b[1] == 'ul' else 'ol'
        items = b[4]
        # loose: blank lines between items, a continuation block after a blank line, or a nested list after a blank line
        loose = (b[2] and len(items) > 1) or any((rb[0] != 'sublist' or rb[2]) for _, r in items for rb in r)
        out = []
        for first, rest in items:
            s = ('<li><p>' + inl(first, c) + '</p>') if loose else ('<li>' + inl(first, c))
            for rb in rest:
                s += '\n\n' + block(rb[1] if rb[0] == 'sublist' else rb, c)
            out.append(s + '</li>')
        return '<%s>\n' % tag + '\n'.join(out) + '\n</%s>' % tag
    if k == 'table':
        al, hdr, rows = b[1], b[2], b[3]
        # the blanks that pad a cell in the source are part of the cell; a row written without its outer pipes has none at its two ends
        opened = len(b) > 5 and b[5] == 'open' and len(al) >= 2

        def cells(tag, row):
            n = len(al)
            out_ = ''
            for i, (a, cc) in enumerate(zip(al, row)):
                if cc is None:
                    continue            # merged into the cell before it
                k = 0
                while i + 1 + k < len(row) and row[i + 1 + k] is None:
                    k += 1
                out_ += '\t<%s%s%s>%s%s%s</%s>\n' % (tag, AL_STYLE[a], ' colspan="%d"' % (k + 1) if k else '', '' if (opened and i == 0) else ' ', inl(cc, c),
                                                   '' if (opened and i == n - 1) else ' ', tag)
            return out_
        h = '<table>\n<colgroup>\n' + ''.join(COL[a] + '\n' for a in al) + '</colgroup>\n\n<thead>\n<tr>\n'
        h += cells('th', hdr) + '</tr>\n</thead>\n\n<tbody>\n'
        for r in rows:
            h += '<tr>\n' + cells('td', r) + '</tr>\n'
        return h + '</tbody>\n</table>'
    if k == 'deflist':
        return '<dl>\n' + ''.join('<dt>%s</dt>\n' % esc(t) for t in b[1]) + '\n\n'.join('<dd>%s</dd>' % esc(d) for d in b[2]) + '\n</dl>'
    if k == 'figure':
        if c.compat:
            return '<p><img src="%s" alt="%s"%s /></p>' % (esc(b[2]), esc(b[1]), (' title="' + esc(b[3]) + '"') if b[3] else '')
        return ('<figure>\n<img src="%s" alt="%s"%s />\n<figcaption>%s</figcaption>\n</figure>'
                % (esc(b[2]), esc(b[1]), (' title="' + esc(b[3]) + '"') if b[3] else '', esc(b[1])))
    if k == 'math':
        if b[1] == 'bracket':
            return '<p><span class="math">\\[ ' + esc_math(b[2]) + ' \\]</span></p>'
        return '<p><span class="math">\\[' + esc_math(b[2]) + '\\]</span></p>'
    raise ValueError(k)


def blocks(bs, c):
    return '\n\n'.join(block(b, c) for b in bs)


def document(doc, smart=True, compat=False, nolabels=False):
    c = Ctx(smart, compat, doc.get('notes'), nolabels)
    out = [blocks(doc['blocks'], c)]
    if c.used:
        fn = '<div class="footnotes">\n<hr />\n<ol>\n\n'
        for i, fid in enumerate(c.used):
            fn += ('<li id="fn:%d">\n<p>%s <a href="#fnref:%d" title="return to body" class="reversefootnote">&#160;&#8617;&#xfe0e;</a></p>\n</li>\n\n'
                   % (i + 1, esc(c.notes[fid]), i + 1))
        out.append(fn + '</ol>\n</div>')
    tail = '\n'
    if doc['blocks'] and doc['blocks'][-1][0] == 'deflist' and not c.used:
        tail = '\n\n'          # a definition list that ends the document is followed by one more newline (Definition Lists.html)
    return '\n\n'.join(out) + tail
