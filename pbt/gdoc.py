"""G-doc: Hypothesis strategies for abstract MultiMarkdown documents + serialiser to concrete Markdown.

AST (JSON lists, so shrunk cases are replayable):
  doc     = {'meta': [[key, value]...] | None, 'yaml': bool, 'blocks': [block...], 'defs': [[rid,url,title,q]...],
             'notes': [[fid, text]...], 'final_nl': bool}
  block   = ['para', [line...], sep] | ['atx', level, inl, closed] | ['setext', level, inl] | ['hr', spelling]
          | ['fence', ticks, lang|None, [rawline...]] | ['icode', 'sp'|'tab', [rawline...]] | ['quote', [block...]]
          | ['list', 'ul'|'ol', loose, marker, [[inl, [block...]]...]] | ['table', [align...], [cell...], [[cell...]...], caption|None]
          | ['deflist', [term...], [def...]] | ['figure', alt, url, title|None] | ['toc'] | ['math', kind, raw]
  inl     = [node...];  node = ['t', text] | ['em', d, inl] | ['st', d, inl] | ['code', raw] | ['link', inl, url, title|None, q]
          | ['reflink', form, inl, rid] | ['auto', url] | ['email', addr] | ['img', alt, url, title|None] | ['esc', ch]
          | ['ent', s] | ['bare', ch] | ['smart', kind] | ['fnref', fid] | ['ifn', text] | ['imath', kind, raw] | ['sup', a, b, form]
          | ['sub', a, b, form] | ['xref', title]

The serialiser is where "unambiguous use of the documented syntax" is enforced: nodes are separated by single blanks, emphasis
delimiters touch a word inside and a blank outside, and the block sequence is repaired by fix_blocks() (never two indented code
blocks in a row, nothing list-like after a list, ...).  Every rule is a documented precedence, not a workaround.
"""
from hypothesis import strategies as st

WORDS = ['alpha', 'bravo', 'charlie', 'delta', 'echo', 'foxtrot', 'golf', 'hotel', 'india', 'juliet', 'kilo', 'lima']


class Cfg:
    """Which constructs a consumer wants."""
    def __init__(self, **kw):
        self.words = kw.get('words', st.sampled_from(WORDS))
        self.inlines = kw.get('inlines', ['t', 'em', 'st', 'code', 'link'])
        self.blocks = kw.get('blocks', ['para', 'atx', 'setext', 'hr', 'fence', 'icode', 'quote', 'list'])
        self.code = kw.get('code', st.sampled_from(['x', 'a b', 'a<b', 'x & y', '"q"', 'f(x)', '*lit*']))
        self.codelines = kw.get('codelines', st.sampled_from(['code line', 'x = a < b && c', '<tag>', '*not em*', 'a & b']))
        self.urls = kw.get('urls', st.sampled_from(['http://example.com/alpha', 'http://example.com/b?x=1', 'https://example.org/', 'page.html', '#frag']))
        self.titles = kw.get('titles', st.sampled_from([None, None, 'Title here', 'Other title']))
        self.images = kw.get('images', st.sampled_from(['img/alpha.png', 'pic.png', 'http://example.com/i.jpg']))
        self.depth = kw.get('depth', 2)
        self.max_blocks = kw.get('max_blocks', 5)
        self.meta = kw.get('meta', None)          # strategy for metadata list or None
        self.langs = kw.get('langs', st.sampled_from([None, 'python', 'c']))
        self.cell_inlines = kw.get('cell_inlines', ['t', 'em', 'code'])
        self.heading_inlines = kw.get('heading_inlines', ['t', 'em', 'st', 'code'])
        self.lead = kw.get('lead', st.just(0))               # 0..3 blanks before ATX / list markers (same rendering)
        self.sublists = kw.get('sublists', False)            # list items may carry a nested list (['sublist', list, gap])
        self.refids = kw.get('refids', st.sampled_from(['ref1', 'Ref Two', 'r-3']))
        self.cell_pad = kw.get('cell_pad', st.just(True))      # False: cells written without padding blanks (|a|b|)


def text(cfg, n=3):
    return st.lists(cfg.words, min_size=1, max_size=n).map(lambda ws: ['t', ' '.join(ws)])


def inlines(cfg, depth=None, inlink=False, max_n=4, allow=None):
    depth = cfg.depth if depth is None else depth
    kinds = [k for k in cfg.inlines if (allow is None or k in allow)]
    opts = [text(cfg), text(cfg)]
    if depth > 0:
        sub = lambda excl: inlines(cfg, depth - 1, inlink, 2, [k for k in kinds if k not in excl])
        if 'em' in kinds:
            opts.append(st.tuples(st.sampled_from('*_'), text(cfg, 2), sub(('em', 'fnref', 'ifn'))).map(lambda t: ['em', t[0], [t[1]] + t[2]]))
        if 'st' in kinds:
            opts.append(st.tuples(st.sampled_from('*_'), text(cfg, 2), sub(('st', 'em', 'fnref', 'ifn'))).map(lambda t: ['st', t[0], [t[1]] + t[2]]))
        if 'link' in kinds and not inlink:
            opts.append(st.tuples(inlines(cfg, depth - 1, True, 2, [k for k in kinds if k in ('t', 'em', 'st', 'code')]), cfg.urls, cfg.titles, st.sampled_from('"\''))
                        .map(lambda t: ['link', t[0], t[1], t[2], t[3]]))
    if 'code' in kinds:
        opts.append(cfg.code.map(lambda c: ['code', c]))
    if 'reflink' in kinds and not inlink:
        opts.append(st.tuples(st.sampled_from(['full', 'implicit', 'shortcut']), text(cfg, 2), cfg.refids, st.integers(0, 2))
                    .map(lambda t: ['reflink', t[0], [t[1]], t[2], t[3]]))       # last: how the label is re-spelled at the point of use (case)
    if 'auto' in kinds and not inlink:
        opts.append(st.sampled_from(['http://auto.example/alpha', 'https://auto.example/b/c']).map(lambda u: ['auto', u]))
    if 'email' in kinds and not inlink:
        opts.append(st.sampled_from(['someone@example.com', 'a.b@c.org', 'info@b\u00fccher.example', 'mailto:vente@soci\u00e9t\u00e9.example', 'j.m@m\u00fcnchen.example']).map(lambda u: ['email', u]))
    if 'critic' in kinds and not inlink:
        opts.append(st.tuples(st.sampled_from(['add', 'del', 'sub', 'hi', 'com']), text(cfg, 2), text(cfg, 2)).map(lambda t: ['critic', t[0], t[1][1], t[2][1]]))
    if 'img' in kinds:
        opts.append(st.tuples(text(cfg, 2), cfg.images, cfg.titles).map(lambda t: ['img', t[0][1], t[1], t[2]]))
    if 'esc' in kinds:
        opts.append(st.sampled_from('*_`#[]<>&\\+-.!').map(lambda c: ['esc', c]))
    if 'ent' in kinds:
        opts.append(st.sampled_from(['&copy;', '&amp;', '&#169;', '&#xA9;']).map(lambda c: ['ent', c]))
    if 'bare' in kinds:
        opts.append(st.sampled_from(['&', '<', '>']).map(lambda c: ['bare', c]))
    if 'smart' in kinds:
        opts.append(st.sampled_from(['dq', 'sq', 'apos', 'en', 'em', 'ell']).map(lambda c: ['smart', c]))
    if 'fnref' in kinds and not inlink:
        opts.append(st.integers(0, 5).map(lambda i: ['fnref', 'fn%d' % i]))
    if 'cite' in kinds and not inlink:
        opts.append(st.integers(0, 2).map(lambda i: ['cite', 'c%d' % i]))
    if 'gloss' in kinds and not inlink:
        opts.append(st.integers(0, 2).map(lambda i: ['gloss', 'term%d' % i]))
    if 'ifn' in kinds and not inlink:
        opts.append(text(cfg, 3).map(lambda t: ['ifn', t[1]]))
    if 'imath' in kinds:
        opts.append(st.tuples(st.sampled_from(['paren', 'dollar']), st.sampled_from(['x^2 + y_1', '{e}^{i\\pi }+1=0', 'a < b', 'a & b'])).map(lambda t: ['imath', t[0], t[1]]))
    if 'sup' in kinds:
        opts.append(st.tuples(st.sampled_from(['sup', 'sub']), st.sampled_from(['x', 'mass', 'E']), st.sampled_from(['2', 'n', 'ab']), st.integers(1, 2)).map(lambda t: [t[0], t[1], t[2], t[3]]))
    return st.lists(st.one_of(*opts), min_size=1, max_size=max_n).map(fix_inlines)


def fix_inlines(xs):
    """bare & < > never first (a leading `>` is a block quote marker); sup/sub need a following node."""
    out = []
    for x in xs:
        if not out and x[0] in ('bare',):
            out.append(['t', 'lead'])
        out.append(x)
    if out and out[-1][0] in ('sup', 'sub') and out[-1][3] == 1:
        out.append(['t', 'more'])
    return out


def blocks(cfg, depth=None, max_n=None, top=True):
    depth = cfg.depth if depth is None else depth
    max_n = cfg.max_blocks if max_n is None else max_n
    kinds = cfg.blocks
    opts = []
    line = inlines(cfg)
    if 'para' in kinds:
        p = st.tuples(st.lists(line, min_size=1, max_size=2), st.sampled_from(['nl', 'nl', '2sp', 'bs'])).map(lambda t: ['para', t[0], t[1]])
        opts += [p, p]
    hinl = inlines(cfg, 1, False, 3, cfg.heading_inlines)
    if 'atx' in kinds:
        opts.append(st.tuples(st.integers(1, 6), hinl, st.booleans(), cfg.lead).map(lambda t: ['atx', t[0], t[1], t[2], t[3]]))
    if 'setext' in kinds:
        opts.append(st.tuples(st.integers(1, 2), hinl).map(lambda t: ['setext', t[0], t[1]]))
    if 'hr' in kinds:
        opts.append(st.sampled_from(['***', '* * *', '---', '- - -', '___', '*****']).map(lambda s: ['hr', s]))
    if 'fence' in kinds:
        opts.append(st.tuples(st.integers(3, 5), cfg.langs, st.lists(cfg.codelines, min_size=1, max_size=3)).map(lambda t: ['fence', t[0], t[1], t[2]]))
    if 'icode' in kinds:
        opts.append(st.tuples(st.sampled_from(['sp', 'tab']), st.lists(cfg.codelines, min_size=1, max_size=3)).map(lambda t: ['icode', t[0], t[1]]))
    if 'figure' in kinds:
        opts.append(st.tuples(text(cfg, 2), cfg.images, cfg.titles).map(lambda t: ['figure', t[0][1], t[1], t[2]]))
    if 'table' in kinds and top:
        cell = inlines(cfg, 0, False, 2, cfg.cell_inlines)
        opts.append(st.integers(1, 4).flatmap(lambda nc: st.tuples(
            st.lists(st.sampled_from('nlrc'), min_size=nc, max_size=nc), st.lists(cell, min_size=nc, max_size=nc),
            st.lists(st.lists(cell, min_size=nc, max_size=nc), min_size=1, max_size=3), cfg.cell_pad)).map(lambda t: ['table', t[0], t[1], t[2], None, t[3]]))
    if 'deflist' in kinds and top:
        opts.append(st.tuples(st.lists(text(cfg, 2), min_size=1, max_size=2), st.lists(text(cfg, 3), min_size=1, max_size=2))
                    .map(lambda t: ['deflist', [x[1] for x in t[0]], [x[1] for x in t[1]]]))
    if 'math' in kinds and top:
        opts.append(st.tuples(st.sampled_from(['bracket', 'ddollar']), st.sampled_from(['x^2 + y_1', 'a < b', 'a & b'])).map(lambda t: ['math', t[0], t[1]]))
    if 'toc' in kinds and top:
        opts.append(st.just(['toc']))
    if depth > 0:
        if 'quote' in kinds:
            opts.append(blocks(cfg, depth - 1, 2, False).map(lambda b: ['quote', b]))
        if 'list' in kinds:
            item = st.tuples(inlines(cfg, 1), st.one_of(st.just([]), st.just([]), blocks(cfg, depth - 1, 1, False)))
            plain = st.tuples(st.sampled_from(['ul', 'ol']), st.booleans(), st.sampled_from('*+-'), st.lists(item, min_size=1, max_size=3), cfg.lead) \
                .map(lambda t: ['list', t[0], t[1], t[2], [[i[0], i[1]] for i in t[3]], t[4]])
            opts.append(plain)
            if cfg.sublists:
                leaf = st.tuples(st.sampled_from(['ul', 'ol']), st.booleans(), st.sampled_from('*+-'), st.lists(inlines(cfg, 1, False, 2), min_size=1, max_size=3)) \
                    .map(lambda t: ['list', t[0], t[1] and len(t[3]) > 1, t[2], [[i, []] for i in t[3]], 0])
                opts.append(st.tuples(st.sampled_from(['ul', 'ol']), st.booleans(), st.sampled_from('*+-'), st.lists(inlines(cfg, 1, False, 2), min_size=1, max_size=3),
                                      leaf, st.integers(0, 2), st.booleans()).map(nest_list))
    return st.lists(st.one_of(*opts), min_size=1, max_size=max_n).map(fix_blocks)


def nest_list(t):
    """A list with one nested list.  Kept inside the unambiguous uses: a tight parent carries the nested list in its LAST item (so blank lines
    inside the nested list cannot be read as separating parent items) and directly under the item's line; a loose parent may carry it in
    any item, optionally after a blank line (`gap`)."""
    kind, loose, marker, firsts, sub, pos, gap = t
    loose = loose and len(firsts) > 1
    pos = pos % len(firsts) if loose else len(firsts) - 1
    items = [[f, []] for f in firsts]
    items[pos][1] = [['sublist', sub, bool(gap and loose)]]
    return ['list', kind, loose, marker, items, 0]


def fix_blocks(bs):
    """Adjacency rules (each a documented precedence):
       - blank-line separated indented code is one block, so never two in a row;
       - an indented block or a list after a list belongs to that list (continuation / same list);
       - a list item's continuation blocks are restricted to what the corpus pins down (paragraphs, code, quotes);
       - tables and definition lists need a paragraph between them."""
    out = []
    for b in bs:
        prev = out[-1][0] if out else None
        if b[0] == 'icode' and prev in ('icode', 'list', 'deflist'):
            continue
        if b[0] == 'list' and prev in ('list',):
            continue
        if b[0] in ('table', 'deflist') and prev in ('table', 'deflist', 'para'):
            out.append(['hr', '* * *'])
        if b[0] == 'list':
            items = []
            for first, rest in b[4]:
                rest = [r for r in rest if r[0] in ('para', 'sublist')]
                items.append([first, rest])
            b = ['list', b[1], b[2], b[3], items] + list(b[5:])
        if prev == 'deflist' and b[0] == 'para':
            out.append(['hr', '* * *'])
        out.append(b)
    return out


def document(cfg):
    d = {'blocks': blocks(cfg), 'final_nl': st.sampled_from([True, True, False]),
         'defs': st.just([]), 'notes': st.just([]), 'yaml': st.booleans(),
         'meta': cfg.meta if cfg.meta is not None else st.just(None)}
    return st.fixed_dictionaries(d).map(finish)


def finish(doc):
    """Collect footnote definitions for every reference used (each defined once)."""
    used = []
    rids = []
    xdefs = []
    def walk_inl(xs):
        for x in xs:
            if x[0] == 'fnref' and x[1] not in used:
                used.append(x[1])
            if x[0] in ('cite', 'gloss') and (x[0], x[1]) not in xdefs:
                xdefs.append((x[0], x[1]))
            if x[0] == 'reflink':
                if x[3].lower() not in [r.lower() for r in rids]:
                    rids.append(x[3])
                walk_inl(x[2])
            if x[0] in ('em', 'st'):
                walk_inl(x[2])
            if x[0] == 'link':
                walk_inl(x[1])
    def walk(bs):
        for b in bs:
            if b[0] == 'para':
                for l in b[1]:
                    walk_inl(l)
            elif b[0] in ('atx', 'setext'):
                walk_inl(b[2])
            elif b[0] == 'quote':
                walk(b[1])
            elif b[0] == 'sublist':
                walk([b[1]])
            elif b[0] == 'list':
                for first, rest in b[4]:
                    walk_inl(first)
                    walk(rest)
            elif b[0] == 'table':
                for c in b[2]:
                    walk_inl(c)
                for r in b[3]:
                    for c in r:
                        walk_inl(c)
    walk(doc['blocks'])
    doc['notes'] = [[f, 'note text %s' % f] for f in used]
    if rids:
        doc['defs'] = [ref_def(r) for r in rids]
    if xdefs:
        # a definition may itself call a footnote that the body uses too (a re-use, never a first call: see the C10 known finding)
        tail = (' see[^%s]' % used[-1]) if used else ''
        doc['xdefs'] = ['[#%s]: Author %s. *Book %s*. 2020.' % (i, i, i) if k == 'cite' else '[?%s]: definition of %s%s' % (i, i, tail) for k, i in xdefs]
    return doc


def ref_def(rid):
    """The definition that goes with a reference label (a pure function of the label, so that models can recompute it)."""
    slug = ''.join(c for c in rid.lower() if c.isalnum())
    n = sum(ord(c) for c in rid) % 3
    return [rid, 'http://ref.example/' + slug + ('?a=1&b=2' if n == 1 else ''), (None, 'Title of ' + slug, 'Say "quoted" & more')[n], ('"', '"', "'")[n]]


# ---- serialiser ----------------------------------------------------------------------------------------------------------
SMART_SRC = {'dq': '"quoted words"', 'sq': "'single words'", 'apos': "it's", 'en': 'pages 3--4', 'em': 'wait---what', 'ell': 'and so...'}


def ser_inl(xs):
    parts = []
    for x in xs:
        k = x[0]
        if k == 't':
            parts.append(x[1])
        elif k == 'em':
            parts.append(x[1] + ser_inl(x[2]) + x[1])
        elif k == 'st':
            parts.append(x[1] * 2 + ser_inl(x[2]) + x[1] * 2)
        elif k == 'code':
            parts.append('`' + x[1] + '`')
        elif k == 'link':
            q = x[4]
            parts.append('[' + ser_inl(x[1]) + '](' + x[2] + (' ' + q + x[3] + q if x[3] else '') + ')')
        elif k == 'reflink':
            form = x[1]
            lab = x[3] if len(x) < 5 else (x[3], x[3].upper(), x[3].lower())[x[4]]      # labels are not case sensitive
            parts.append('[' + ser_inl(x[2]) + '][' + lab + ']' if form == 'full' else ('[' + lab + '][]' if form == 'implicit' else '[' + lab + ']'))
        elif k == 'auto':
            parts.append('<' + x[1] + '>')
        elif k == 'email':
            parts.append('<' + x[1] + '>')
        elif k == 'img':
            parts.append('![' + x[1] + '](' + x[2] + (' "' + x[3] + '"' if x[3] else '') + ')')
        elif k == 'esc':
            parts.append('\\' + x[1])
        elif k in ('ent', 'bare'):
            parts.append(x[1])
        elif k == 'smart':
            parts.append(SMART_SRC[x[1]])
        elif k == 'critic':
            parts.append({'add': '{++%s++}', 'del': '{--%s--}', 'hi': '{==%s==}', 'com': '{>>%s<<}'}[x[1]] % x[2] if x[1] != 'sub' else '{~~%s~>%s~~}' % (x[2], x[3]))
        elif k == 'cite':
            parts.append('cited[#' + x[1] + ']')
        elif k == 'gloss':
            parts.append('[?' + x[1] + ']')
        elif k == 'fnref':
            parts.append('note[^' + x[1] + ']')
        elif k == 'ifn':
            parts.append('word[^' + x[1] + ']')
        elif k == 'imath':
            parts.append('\\\\(' + x[2] + '\\\\)' if x[1] == 'paren' else '$' + x[2] + '$')
        elif k in ('sup', 'sub'):
            c = '^' if k == 'sup' else '~'
            parts.append(x[1] + c + x[2] + (c if x[3] == 2 else ''))
        elif k == 'xref':
            parts.append('[' + x[1] + '][]')
    return ' '.join(parts)


def ser_block(b):
    k = b[0]
    if k == 'para':
        sep = {'nl': '\n', '2sp': '  \n', 'bs': '\\\n'}[b[2]]
        return sep.join(ser_inl(l) for l in b[1])
    if k == 'atx':
        return ' ' * (b[4] if len(b) > 4 else 0) + '#' * b[1] + ' ' + ser_inl(b[2]) + (' ' + '#' * b[1] if b[3] else '')
    if k == 'setext':
        return ser_inl(b[2]) + '\n' + ('=' if b[1] == 1 else '-') * 5
    if k == 'hr':
        return b[1]
    if k == 'fence':
        return '`' * b[1] + (b[2] or '') + '\n' + '\n'.join(b[3]) + '\n' + '`' * b[1]
    if k == 'icode':
        ind = '    ' if b[1] == 'sp' else '\t'
        return '\n'.join(ind + l for l in b[2])
    if k == 'quote':
        return '\n'.join((('>' + l) if (l.startswith('    ') or l.startswith('\t')) else '> ' + l) if l else '>' for l in ser_blocks(b[1]).split('\n'))
    if k == 'list':
        lines = []
        for i, (first, rest) in enumerate(b[4]):
            mk = b[3] if b[1] == 'ul' else '%d.' % (i + 1)
            item = ' ' * (b[5] if len(b) > 5 else 0) + mk + ' ' + ser_inl(first)
            for rb in rest:
                if rb[0] == 'sublist':
                    item += ('\n\n' if rb[2] else '\n') + '\n'.join(('    ' + l if l else '') for l in ser_block(rb[1]).split('\n'))
                    continue
                item += '\n\n' + '\n'.join(('    ' + l if l else '') for l in ser_block(rb).split('\n'))
            lines.append(item)
        return ('\n\n' if b[2] else '\n').join(lines)
    if k == 'table':
        al = {'n': '---', 'l': ':---', 'r': '---:', 'c': ':---:'}
        if len(b) > 5 and b[5] == 'open' and len(b[1]) >= 2:
            # leading and trailing pipes are optional
            sep = '|'.join(al[a] for a in b[1])
            rows = [' | '.join(ser_inl(c) for c in b[2]), ('|' + sep) if sep.startswith(':') else sep]      # (a line that starts with a colon would be a definition)
            rows += [' | '.join(ser_inl(c) for c in r) for r in b[3]]
        elif len(b) > 5 and not b[5]:
            rows = ['|' + '|'.join(ser_inl(c) for c in b[2]) + '|', '|' + '|'.join(al[a] for a in b[1]) + '|']
            rows += ['|' + '|'.join(ser_inl(c) for c in r) + '|' for r in b[3]]
        else:
            def row_(r):
                # a cell followed by k cells that are None spans k+1 columns: its closing pipe is written k+1 times
                out_ = '|'
                for i_, c in enumerate(r):
                    if c is None:
                        continue
                    k_ = 0
                    while i_ + 1 + k_ < len(r) and r[i_ + 1 + k_] is None:
                        k_ += 1
                    out_ += ' ' + ser_inl(c) + ' |' + '|' * k_
                return out_
            rows = ['| ' + ' | '.join(ser_inl(c) for c in b[2]) + ' |', '| ' + ' | '.join(al[a] for a in b[1]) + ' |']
            rows += [row_(r) for r in b[3]]
        if b[4]:
            rows.append('[' + b[4] + ']')
        return '\n'.join(rows)
    if k == 'deflist':
        return '\n'.join(b[1]) + '\n' + '\n'.join(': ' + d for d in b[2])
    if k == 'figure':
        return '![' + b[1] + '](' + b[2] + (' "' + b[3] + '"' if b[3] else '') + ')'
    if k == 'math':
        return '\\\\[ ' + b[2] + ' \\\\]' if b[1] == 'bracket' else '$$' + b[2] + '$$'
    if k == 'toc':
        return '{{TOC}}'
    if k == 'html':
        return b[1]
    raise ValueError(k)


def ser_blocks(bs):
    return '\n\n'.join(ser_block(b) for b in bs)


def ser_meta(doc):
    if not doc.get('meta'):
        return ''
    lines = ['%s: %s' % (k, v) for k, v in doc['meta']]
    if doc.get('yaml'):
        return '---\n' + '\n'.join(lines) + '\n---\n\n'
    return '\n'.join(lines) + '\n\n'


def ser_body(doc):
    out = [ser_blocks(doc['blocks'])]
    for rid, url, title, q in doc.get('defs', []):
        close = {'"': '"', "'": "'", '(': ')'}[q]
        out.append('[' + rid + ']: ' + url + (' ' + q + title + close if title else ''))
    for fid, t in doc.get('notes', []):
        out.append('[^' + fid + ']: ' + t)
    for line in doc.get('xdefs', []):
        out.append(line)
    return '\n\n'.join(out) + ('\n' if doc.get('final_nl', True) else '')


def ser_doc(doc):
    return ser_meta(doc) + ser_body(doc)


def block_kinds(bs, acc=None):
    acc = set() if acc is None else acc
    for b in bs:
        acc.add(b[0])
        if b[0] == 'quote':
            block_kinds(b[1], acc)
        elif b[0] == 'sublist':
            block_kinds([b[1]], acc)
        elif b[0] == 'list':
            for _, rest in b[4]:
                block_kinds(rest, acc)
    return acc
